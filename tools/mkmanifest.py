#!/usr/bin/env python3
"""Regenerate /verif/MANIFEST.json from vx/props.py (checks) and the N/A table below."""
import json, os, sys
V = os.path.dirname(os.path.dirname(os.path.abspath(__file__)))
sys.path.insert(0, os.path.join(V, "vx"))
import props as P

NA = {
 "C03": "Canonical::quorum is iterator-adapter/closure code over git2::Repository::merge_base: outside Verus's subset; libgit2 cannot run under CBMC and a stubbed 3-delegate Kani harness did not finish in 45 min/4.7 GB (DESIGN 4/C03).",
 "C05": "Two-run relational property over ChangeGraph::load/evaluate + Dag::prune_by + git object storage; no single-call contract states independence of enumeration order and the DAG code is outside both tools (DESIGN 4/C05).",
 "C08": "Merge tally is a fold closure into a HashMap + retain closure + slice pattern inside one arm of the 600-line Patch::action; not in Verus's subset, Patch too heavy for CBMC. Delegate-only gate for Merge is covered under C07 (DESIGN 4/C08).",
 "C09": "Behaviour is SQL (json_tree, WHERE) evaluated by SQLite; no contract on the Rust side can state what a query returns (DESIGN 4/C09).",
 "C18": "CanonicalFormatter is a callback object driven by serde_json's serializer through macro-generated methods and dyn Write with unicode_normalization tables; correctness is relative to serde_json's call protocol, which no contract within reach can state (DESIGN 4/C18).",
 "C21": "Base58/multibase and did:key prefixing live in external crates whose contract would have to be assumed to be the very round-trip to be shown; Alias/UserAgent validation is str/char iteration outside Verus's subset (DESIGN 4/C21).",
 "C23": "Recursive DFS over BTreeMap<K,Node{BTreeSet,BTreeSet}> with comparator/filter closures; needs trusted specs for six std iterator types plus a topological-sort proof; CBMC did not terminate on 3 nodes (DESIGN 4/C23).",
 "C24": "All behaviour is in SQL upserts (ON CONFLICT ... WHERE timestamp < ?) executed by SQLite (DESIGN 4/C24).",
 "C30": "Text formatting/parsing over git2::Diff structures: string-level code with libgit2 inputs, outside both tools (DESIGN 4/C30).",
}
PENDING = "not yet built in this session (planned decision in DESIGN.md section 4)"

ids = [json.loads(l)["id"] for l in open(os.path.join(V, "properties.jsonl"))]
checks = []
for pid in ids:
    if pid not in P.PROPS:
        continue
    s = P.PROPS[pid]
    c = {
        "property_id": pid,
        "quick_cmd": "./check %s --tier quick" % pid,
        "thorough_cmd": "./check %s --tier thorough" % pid,
        "evidence_file": "/verif/evidence/%s.json" % pid,
        "replay_cmd_template": "./check %s --replay {path}" % pid,
        "engine": "+".join((["vx"] if s.get("vx") else []) + (["kx"] if s.get("kx") else [])),
        "level_claimed": {"category": s.get("category", "proof"), "text": s["explanation"], "design_ref": "DESIGN.md 4/%s" % pid},
        "level_note": s.get("level_note") or ("Not decided / assumed: " + s.get("not_decided", "")),
        "technique": s["technique"],
    }
    checks.append(c)
na = []
for pid in ids:
    if pid in P.PROPS:
        continue
    na.append({"property_id": pid, "reason": NA.get(pid, PENDING)})
m = {
 "version": 1,
 "setup_cmd": "./setup.sh",
 "hooks": {
  "guard": "kani",
  "enable": "no in-tree hooks: contracts live in /verif and are spliced into functions extracted from /repo on every run (Verus), or appended as #[cfg(kani)] modules to a scratch copy of /repo (Kani)",
  "baseline_off_cmd": "cd /repo && cargo nextest run --workspace --no-fail-fast --offline || cargo test --workspace --no-fail-fast --offline",
  "source_commits": P.HOOK_COMMITS if hasattr(P, "HOOK_COMMITS") else [],
  "add_only": True,
 },
 "engines": [
  {"name": "vx", "path": "/verif/vx", "serves_properties": [p for p in ids if p in P.PROPS and P.PROPS[p].get("vx")], "kind_free_text": "Verus 0.2026.09.13 on functions extracted verbatim from /repo each run, contracts spliced from vx/units/*.rs"},
  {"name": "kx", "path": "/verif/kx", "serves_properties": [p for p in ids if p in P.PROPS and P.PROPS[p].get("kx")], "kind_free_text": "Kani 0.68 function contracts / full-domain loop-free harnesses on a scratch copy of the real crates; bounded harnesses labelled bounded"},
 ],
 "checks": checks,
 "notes": "exit 2 from a check means undecided (lost anchor, unsupported construct, tool limit), never an alarm. Known findings: /verif/known_findings.txt",
 "not_applicable": na,
}
json.dump(m, open(os.path.join(V, "MANIFEST.json"), "w"), indent=1)
print("checks:", [c["property_id"] for c in checks], "na:", len(na))


# ---- DESIGN.md generated sections ------------------------------------------------------------------------------
def _gen_props():
    titles = {}
    for l in open(os.path.join(V, "properties.jsonl")):
        d = json.loads(l)
        titles[d["id"]] = d["title"]
    out = []
    for pid in ids:
        out.append("### %s %s" % (pid, titles[pid]))
        if pid in P.PROPS:
            s_ = P.PROPS[pid]
            units = ", ".join("`%s`" % u for u in s_.get("vx", []))
            hs = ", ".join("`%s`%s" % (h["harness"], " (BOUNDED: %s)" % h.get("bound") if h.get("bounded") else "") for h in s_.get("kx", []))
            out.append("*Claimed.* Verus units: %s.%s" % (units or "none", (" Kani harnesses: %s." % hs) if hs else ""))
            out.append("*Technique.* " + s_["technique"])
            out.append("*Decided.* " + s_["explanation"])
            out.append("*Not decided / assumed.* " + s_.get("not_decided", ""))
        else:
            out.append("*Not applicable.* " + NA.get(pid, PENDING))
        out.append("")
    return "\n\n".join(x for x in out)


def _gen_seeded():
    rows = []
    sd = os.path.join(V, "seeded")
    if os.path.isdir(sd):
        for d in sorted(os.listdir(sd)):
            mp = os.path.join(sd, d, "meta.json")
            if os.path.exists(mp):
                mt = json.load(open(mp))
                rows.append("| `%s` | %s | %s | %s | %s |" % (d, mt.get("property"), mt.get("change", "").replace("|", "/"), mt.get("needs", "").replace("|", "/"), (mt.get("verdict", "")[:260] + ((" — " + mt["history"]) if mt.get("history") else "")).replace("|", "/")))
    head = "| seeded/ | property | change | needs, to manifest | `./check` on the changed tree |\n|---|---|---|---|---|\n"
    metas = [json.load(open(os.path.join(sd, d, "meta.json"))) for d in sorted(os.listdir(sd)) if os.path.exists(os.path.join(sd, d, "meta.json"))] if os.path.isdir(sd) else []
    n = len(metas)
    caught = sum(1 for m_ in metas if m_.get("verdict", "").startswith("CAUGHT"))
    missed = sum(1 for m_ in metas if m_.get("verdict", "").startswith("MISSED"))
    undec = sum(1 for m_ in metas if m_.get("verdict", "").startswith("undecided"))
    first_ok = sum(1 for m_ in metas if m_.get("verdict", "").startswith("CAUGHT") and (not m_.get("history") or m_.get("history", "").startswith("caught on first run")))
    summ = ("**Summary:** %d seeded changes; on the machinery as committed: %d caught (exit 1, named obligation), %d missed (exit 0), "
            "%d undecided (exit 2). At first contact only %d of the %d were caught: the others were missed or undecided because the "
            "function they touch was not under contract yet or the unit's environment was too narrow to type the changed code; "
            "each such case led to the extension recorded in its row (no check was loosened, no property text was read by the "
            "seeding agents beyond its own).\n\n" % (n, caught, missed, undec, first_ok, n))
    return summ + head + "\n".join(rows) + "\n"


def _gen_scoreboard():
    rows = []
    tot_f = tot_a = 0
    seen = set()
    for pid in ids:
        if pid not in P.PROPS:
            continue
        ep = os.path.join(V, "evidence", pid + ".json")
        if not os.path.exists(ep):
            continue
        ev = json.load(open(ep))
        c = ev["coverage"]
        fns = c.get("functions_under_contract", [])
        vb = [f for f in fns if f.get("status", "").startswith("body verified")]
        asum = [f for f in fns if "assumed" in f.get("status", "")]
        kani = [f for f in fns if f.get("status", "").startswith("kani")]
        for f in vb + asum:
            seen.add(f["fn"] + "@" + f.get("file", ""))
        rows.append("| %s | %s | %d | %d | %d | %d/%d | %s | %.1f |" % (pid, ", ".join(P.PROPS[pid].get("vx", [])) or "-", len(vb), len(asum), len(kani), c["discharged"], c["obligations"], (("%d/%d" % (c.get("bounded_discharged", 0), c.get("bounded_obligations", 0))) if c.get("bounded_obligations") else "-"), c.get("solver_s", 0)))
    head = "| property | Verus units | fns: body verified | fns: contract assumed | Kani harness fns | obligations discharged | bounded (not counted) | solver s |\n|---|---|---|---|---|---|---|---|\n"
    note = "\n%d distinct extracted functions of /repo are under contract across all units (a function shared by several properties is listed under each). An \"obligation\" is one Verus verification item (function body, loop, lemma or spec well-formedness check) or one Kani check.\n" % len(seen)
    return head + "\n".join(rows) + "\n" + note


def _splice(text, name, body):
    a = "<!-- BEGIN GENERATED:%s" % name
    b = "<!-- END GENERATED:%s -->" % name
    i = text.index(a)
    i = text.index("\n", i) + 1
    j = text.index(b)
    return text[:i] + body + "\n" + text[j:]


for fn in ("DESIGN.md", "DESIGN.md.new"):
    dp = os.path.join(V, fn)
    if os.path.exists(dp) and "BEGIN GENERATED:properties" in open(dp).read():
        t = open(dp).read()
        t = _splice(t, "properties", _gen_props())
        t = _splice(t, "seeded", _gen_seeded())
        if "BEGIN GENERATED:scoreboard" in t:
            t = _splice(t, "scoreboard", _gen_scoreboard())
        open(dp, "w").write(t)
