#!/usr/bin/env python3
"""tools/seeded_run.py [<seeded dir name> ...]  -- for each seeded change: apply patch.diff to /repo, run ./check for its
property (quick tier), record the outcome in meta.json ("verdict", "obligations"), and restore /repo (git checkout -- .).
Never commits anything in /repo."""
import json, os, re, subprocess, sys
V = os.path.dirname(os.path.dirname(os.path.abspath(__file__)))
SD = os.path.join(V, "seeded")
names = sys.argv[1:] or sorted(os.listdir(SD))
assert subprocess.run(["git", "-C", "/repo", "status", "--porcelain"], capture_output=True, text=True).stdout.strip() == "", "/repo not clean"
touched = set()
for n in names:
    d = os.path.join(SD, n)
    mp = os.path.join(d, "meta.json")
    if not os.path.exists(mp):
        continue
    meta = json.load(open(mp))
    pid = meta["property"]
    r = subprocess.run(["git", "-C", "/repo", "apply", os.path.join(d, "patch.diff")], capture_output=True, text=True)
    if r.returncode != 0:
        meta["verdict"] = "patch no longer applies: " + r.stderr.strip()[:200]
    else:
        try:
            props = [pid] + meta.get("also_check", [])
            obs, codes = [], []
            for p in props:
                c = subprocess.run([os.path.join(V, "check"), p], capture_output=True, text=True, cwd=V)
                codes.append(c.returncode)
                lines = c.stdout.splitlines()
                for i, l in enumerate(lines):
                    if l.startswith("VIOLATION"):
                        ob = lines[i + 1].strip().replace("obligation: ", "") if i + 1 < len(lines) else ""
                        obs.append("%s: %s" % (p, re.sub(r"impl<D, S, G> Service<D, S, G> where [^:]*::", "Service::", ob)[:200]))
                    if l.startswith("UNDECIDED"):
                        obs.append("%s: %s" % (p, l[:200]))
            if 1 in codes:
                meta["verdict"] = "CAUGHT (exit 1): " + "; ".join(o for o in obs if "UNDECIDED" not in o)[:600]
            elif 2 in codes:
                meta["verdict"] = "undecided (exit 2, no alarm): " + "; ".join(obs)[:400]
            else:
                meta["verdict"] = "MISSED (exit 0): " + meta.get("missed_because", "")
            meta["exit_codes"] = dict(zip(props, codes))
        finally:
            subprocess.run(["git", "-C", "/repo", "checkout", "--", "."], check=True)
    meta["checked_against"] = subprocess.run(["git", "-C", "/repo", "rev-parse", "--short", "HEAD"], capture_output=True, text=True).stdout.strip()
    json.dump(meta, open(mp, "w"), indent=1)
    print(n, "->", meta["verdict"][:160])
    touched.update([pid] + meta.get("also_check", []))


# the evidence files were just overwritten by runs on a changed tree: rewrite them from the unchanged tree
for p in sorted(touched):
    subprocess.run([os.path.join(V, "check"), p], capture_output=True, text=True, cwd=V)
