#!/bin/sh
# Re-run every claimed check (quick tier) on the unchanged tree so that the committed evidence files describe a clean run.
cd "$(dirname "$0")/.." || exit 2
[ -z "$(git -C /repo status --porcelain)" ] || { echo "/repo is not clean"; exit 2; }
rc=0
for p in $(python3 -c "import json; print(' '.join(c['property_id'] for c in json.load(open('MANIFEST.json'))['checks']))"); do
  ./check "$p" | tail -1 | cut -c1-100 || rc=1
done
exit $rc
