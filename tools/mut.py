#!/usr/bin/env python3
"""dev helper: tools_mut.py <unit> <repo-relative-file> <old> <new>  -- apply a textual mutation to /repo, run the vx unit, revert."""
import sys, subprocess, os
sys.path.insert(0, '/verif/vx')
import run
unit, rel, old, new = sys.argv[1:5]
p = os.path.join('/repo', rel)
s = open(p).read()
assert s.count(old) >= 1, "pattern not found"
open(p, 'w').write(s.replace(old, new, 1))
try:
    r = run.run_unit(unit, vac=False)
    print(r['status'], r.get('verified'), r.get('errors'))
    for f in r['failed']:
        print('  FAILED:', f['obligation'])
    for u in r['undecided']:
        print('  UNDECIDED:', u['message'][:300])
finally:
    open(p, 'w').write(s)
