// Unit `service_gossip` (C10, C11, C13): the gates in front of the gossip store and the outbox.
// Real code: Service::handle_announcement (gate prefix) and Service::handle_message
// (crates/radicle-node/src/service.rs); message types from service/message.rs.
use vstd::prelude::*;
use std::collections::{HashMap, VecDeque};
//@include _prelude.rs

verus! {
//@include _panic.rs

// ---- environment (declarations only) ------------------------------------------------------------------
#[derive(Clone, Copy, PartialEq, Eq, Hash, Debug)] pub struct NodeId(pub [u8; 32]);
#[derive(Clone, Copy, PartialEq, Eq, Hash, Debug)] pub struct RepoId(pub [u8; 20]);
#[derive(Clone, Copy, PartialEq, Eq, Debug)] pub struct Did(pub NodeId);
impl From<NodeId> for Did { fn from(n: NodeId) -> (r: Did) ensures r == Did(n) { Did(n) } }
impl vstd::std_specs::convert::FromSpecImpl<NodeId> for Did { open spec fn obeys_from_spec() -> bool { true } open spec fn from_spec(n: NodeId) -> Did { Did(n) } }
/// ASSUMED (derive(PartialEq) on byte-array newtypes): structural equality.
#[verifier::external_body]
pub proof fn ids_lawful()
    ensures <NodeId as vstd::std_specs::cmp::PartialEqSpec>::obeys_eq_spec(),
        forall|a: NodeId, b: NodeId| #[trigger] vstd::std_specs::cmp::PartialEqSpec::eq_spec(&a, &b) <==> a == b,
{}
/// node identity verifies ed25519 signatures: ASSUMED to decide the uninterpreted `ed_ok`
pub uninterp spec fn ed_ok(key: NodeId, msg: Seq<u8>, sig: crypto::Signature) -> bool;
pub struct SigError;
impl NodeId {
    #[verifier::external_body]
    pub fn verify(&self, msg: Vec<u8>, sig: &crypto::Signature) -> (r: Result<(), SigError>) ensures r is Ok <==> ed_ok(*self, msg@, *sig) { unimplemented!() }
}
pub mod crypto { #[derive(Clone, Copy, PartialEq, Eq, Debug)] pub struct Signature(pub [u8; 64]); pub mod signature { pub trait Signer<T> {} } }
/// wire encoding of an announcement message (C15): uninterpreted here
pub uninterp spec fn ser(m: AnnouncementMessage) -> Seq<u8>;
pub mod wire {
    use vstd::prelude::*;
    pub type Size = u16;
    /// ASSUMED: wire::serialize is a function of the message
    #[verifier::external_body]
    pub fn serialize(m: &crate::AnnouncementMessage) -> (r: Vec<u8>) ensures r@ == crate::ser(*m) { unimplemented!() }
}
#[derive(Clone, Copy, PartialEq, Eq, PartialOrd, Ord, Debug)] pub struct Timestamp(pub u64);
impl Timestamp {
    pub const MIN: Timestamp = Timestamp(0);
    #[verifier::external_body] pub fn to_local_time(&self) -> (r: LocalTime) ensures r.ms == self.0 { unimplemented!() }
}
impl std::ops::Deref for Timestamp { type Target = u64; fn deref(&self) -> (r: &u64) ensures *r == self.0 { &self.0 } }
/// ASSUMED (derive(PartialEq, PartialOrd) on Timestamp(u64)): compares the milliseconds.
impl vstd::std_specs::cmp::PartialEqSpecImpl for Timestamp { open spec fn obeys_eq_spec() -> bool { true } open spec fn eq_spec(&self, o: &Self) -> bool { self.0 == o.0 } }
impl vstd::std_specs::cmp::PartialOrdSpecImpl for Timestamp {
    open spec fn obeys_partial_cmp_spec() -> bool { true }
    open spec fn partial_cmp_spec(&self, o: &Self) -> Option<std::cmp::Ordering> {
        if self.0 < o.0 { Some(std::cmp::Ordering::Less) } else if self.0 == o.0 { Some(std::cmp::Ordering::Equal) } else { Some(std::cmp::Ordering::Greater) }
    }
}
#[derive(Clone, Copy, Debug, PartialEq, Eq)] pub struct LocalTime { pub ms: u64 }
impl LocalTime { #[verifier::external_body] pub fn as_millis(&self) -> (r: u64) ensures r == self.ms { unimplemented!() } }
#[derive(Clone, Copy, Debug)] pub struct LocalDuration { pub ms: u64 }
impl LocalDuration { #[verifier::external_body] pub fn as_millis(&self) -> (r: u128) ensures r == self.ms { unimplemented!() } }
pub const MAX_TIME_DELTA: LocalDuration = LocalDuration { ms: 3_600_000 };
/// `now - timestamp.to_local_time() <= MAX_TIME_DELTA` (relay freshness): result arbitrary here
#[verifier::external_body] pub fn vx_recent(now: LocalTime, ts: Timestamp) -> bool { unimplemented!() }

#[derive(Clone, Debug, PartialEq, Eq)] pub struct Filter;
#[derive(Clone, Debug, PartialEq, Eq)] pub struct Alias;
#[derive(Clone, Debug, PartialEq, Eq)] pub struct Address;
#[derive(Clone, Debug, PartialEq, Eq)] pub struct UserAgent;
#[derive(Clone, Debug, PartialEq, Eq)] pub struct RefsAt;
pub mod node { #[derive(Clone, Copy, Debug, PartialEq, Eq)] pub struct Features(pub u64); }
pub mod git { #[derive(Clone, Copy, Debug, PartialEq, Eq)] pub struct Oid(pub [u8; 20]); }
#[derive(Clone, Debug, PartialEq, Eq)] pub struct BoundedVec<T, const N: usize> { pub v: Vec<T> }
#[derive(Clone, Debug, PartialEq, Eq)] pub struct ZeroBytes(pub u16);
impl ZeroBytes {
    #[verifier::external_body] pub fn new(n: u16) -> ZeroBytes { unimplemented!() }
    #[verifier::external_body] pub fn len(&self) -> usize { unimplemented!() }
}
pub const MAX_PONG_ZEROES: u16 = 65000;
pub const MAX_LATENCIES: usize = 16;

// ghost state the gates consult
/// the address book knows this node (a node announcement was accepted earlier)
pub uninterp spec fn known(nid: NodeId) -> bool;
/// the repository's identity document makes it visible to this peer (definition proved in unit `identity`);
/// false when the repository is not in storage
pub uninterp spec fn visible(rid: RepoId, did: Did) -> bool;
/// the repository is in local storage (its identity document can be read)
pub uninterp spec fn have(rid: RepoId) -> bool;
/// the local node id
pub uninterp spec fn local_id() -> NodeId;

/// From the statement (C10): an announcement may be stored/relayed only if ...
pub open spec fn acceptable(ann: Announcement, now: LocalTime) -> bool {
    &&& ed_ok(ann.node, ser(ann.message), ann.signature)                    // signature verifies for the announcer over the encoding
    &&& ann.message.ts() - now.ms <= 3_600_000                              // at most one hour ahead of local time
    &&& ((ann.message is Inventory || ann.message is Refs) ==> known(ann.node)) // announcer known for inventory / refs
    &&& ann.node != local_id()                                              // never our own
}

pub mod gossip {
    use vstd::prelude::*;
    use crate::*;
    pub type AnnouncementId = u64;
    pub enum RelayStatus { Relay }
    pub struct Error;
    /// (a field, so that two states of the store are distinguishable values: its ghost log differs)
    pub struct Store { pub opaque: u64 }
    pub struct Anns { pub dummy: u8 }
    impl Anns { #[verifier::external_body] pub fn next(&mut self) -> Option<Result<Announcement, Error>> { unimplemented!() } }
    impl Store {
        /// SINK (C10): stores the announcement if strictly newer (SQL: WHERE timestamp < new). The real function
        /// asserts a non-zero timestamp (C13).
        #[verifier::external_body]
        pub fn announced(&mut self, nid: &NodeId, ann: &Announcement) -> (r: Result<Option<AnnouncementId>, Error>)
            requires
                acceptable(*ann, now_ghost()),            //[C10]
                *nid == ann.node,                         //[C10]
                ann.message.ts() != 0,                    //[C13]
            ensures
                // ghost log: `Ok(Some(id))` means this delivery became the stored content of row `id`, to be relayed later
                r matches Ok(Some(id)) ==> final(self).took() == old(self).took().push(id),
                !(r matches Ok(Some(_))) ==> final(self).took() == old(self).took(),
        { unimplemented!() }
        /// ghost: the ids under which this store has accepted deliveries, in order
        pub uninterp spec fn took(&self) -> Seq<AnnouncementId>;
        /// SINK (C13): the real function asserts `from <= to`.
        #[verifier::external_body]
        pub fn filtered(&self, f: &Filter, from: Timestamp, to: Timestamp) -> (r: Result<Anns, Error>)
            requires from.0 <= to.0                        //[C13]
        { unimplemented!() }
        #[verifier::external_body]
        pub fn set_relay(&mut self, id: AnnouncementId, s: RelayStatus) -> Result<(), Error> { unimplemented!() }
    }
}
/// ghost: the service clock at the time of the call under verification
pub uninterp spec fn now_ghost() -> LocalTime;
pub mod address {
    use vstd::prelude::*;
    use crate::*;
    pub struct Error; pub struct Node;
    pub struct Store;
    impl Store {
        /// ASSUMED: the address book lookup decides `known`
        #[verifier::external_body]
        pub fn get(&self, nid: &NodeId) -> (r: Result<Option<Node>, Error>) ensures r is Ok ==> (r->Ok_0 is Some) == known(*nid) { unimplemented!() }
    }
}
pub struct Stores<D>(pub D);
impl<D> Stores<D> {
    #[verifier::external_body] pub fn addresses(&self) -> &address::Store { unimplemented!() }
    #[verifier::external_body] pub fn gossip(&self) -> &gossip::Store { unimplemented!() }
    /// ghost: the acceptance log of the gossip store inside
    pub uninterp spec fn g_took(self) -> Seq<gossip::AnnouncementId>;
    #[verifier::external_body] pub fn gossip_mut(&mut self) -> (r: &mut gossip::Store)
        ensures r.took() == old(self).g_took(), final(self).g_took() == final(r).took()
    { unimplemented!() }
}
/// C10 ("never echoed back to a peer that delivered it"): `n` is on record as having delivered announcement `id`
pub open spec fn tracked(m: HashMap<gossip::AnnouncementId, Vec<NodeId>>, id: gossip::AnnouncementId, n: NodeId) -> bool {
    m@.contains_key(id) && m@[id]@.contains(n)
}
pub struct Doc { pub rid: RepoId }
impl Doc { #[verifier::external_body] pub fn is_visible_to(&self, did: &Did) -> (r: bool) ensures r == visible(self.rid, *did) { unimplemented!() } }
pub struct RepositoryError;
pub trait ReadStorage {
    /// ASSUMED: `get(rid)` returns the identity document of `rid` if we have the repository
    fn get(&self, rid: RepoId) -> (r: Result<Option<Doc>, RepositoryError>)
        ensures r is Ok && r->Ok_0 is Some ==> r->Ok_0->Some_0.rid == rid, r is Ok ==> (r->Ok_0 is Some <==> have(rid));
}
pub trait Store {}
pub struct Device<G>(pub G);
impl<G> Device<G> { #[verifier::external_body] pub fn public_key(&self) -> &NodeId { unimplemented!() } }
pub struct RateLimit;
pub struct RateLimits { pub inbound: RateLimit, pub outbound: RateLimit }
pub struct Limits { pub rate: RateLimits, pub routing_max_size: usize, pub routing_max_age: LocalDuration, pub gossip_max_age: LocalDuration, pub fetch_concurrency: usize, pub max_open_files: usize }
pub struct Config { pub limits: Limits }
impl Config { #[verifier::external_body] pub fn is_relay(&self) -> bool { unimplemented!() } }
pub struct HostName;
impl From<Address> for HostName { #[verifier::external_body] fn from(a: Address) -> Self { unimplemented!() } }
pub struct RateLimiter;
impl RateLimiter { #[verifier::external_body] pub fn limit(&mut self, h: HostName, nid: Option<&NodeId>, l: &RateLimit, now: LocalTime) -> bool { unimplemented!() } }
#[derive(Clone, Debug, PartialEq, Eq)] pub enum Link { Outbound, Inbound }
pub mod session {
    pub use crate::{State, PingState};
    #[derive(Debug, Clone, Copy)]
    pub enum Error { InvalidTimestamp(crate::Timestamp), ProtocolMismatch, Misbehavior, Timeout }
}
#[derive(Debug, Copy, Clone, PartialEq, Eq)]
pub enum PingState { None, AwaitingResponse { len: u16, since: LocalTime }, Ok }
pub enum State { Initial, Attempted, Connected { since: LocalTime, ping: PingState, latencies: VecDeque<LocalDuration>, stable: bool }, Disconnected { since: LocalTime, retry_at: LocalTime } }
/// ASSUMED (localtime): `LocalTime - LocalTime` saturates (never panics)
/// localtime 1.3.1 (checked in the crate source): `LocalTime - LocalDuration` is a plain `u64` subtraction of the
/// milliseconds -- it panics (debug) or wraps (release) when the duration is larger than the time: precondition.
impl std::ops::Sub<LocalDuration> for LocalTime { type Output = LocalTime; #[verifier::external_body] fn sub(self, o: LocalDuration) -> LocalTime { unimplemented!() } }
impl vstd::std_specs::ops::SubSpecImpl<LocalDuration> for LocalTime {
    open spec fn obeys_sub_spec() -> bool { true }
    open spec fn sub_req(self, o: LocalDuration) -> bool { self.ms >= o.ms }
    open spec fn sub_spec(self, o: LocalDuration) -> LocalTime { LocalTime { ms: (self.ms - o.ms) as u64 } }
}
impl From<LocalTime> for Timestamp { fn from(t: LocalTime) -> (r: Timestamp) ensures r == Timestamp(t.ms) { Timestamp(t.ms) } }
impl vstd::std_specs::convert::FromSpecImpl<LocalTime> for Timestamp { open spec fn obeys_from_spec() -> bool { true } open spec fn from_spec(t: LocalTime) -> Timestamp { Timestamp(t.ms) } }
impl std::ops::Sub<LocalTime> for LocalTime { type Output = LocalDuration; #[verifier::external_body] fn sub(self, o: LocalTime) -> LocalDuration { unimplemented!() } }
impl vstd::std_specs::ops::SubSpecImpl<LocalTime> for LocalTime {
    open spec fn obeys_sub_spec() -> bool { false }
    open spec fn sub_req(self, o: LocalTime) -> bool { true }
    open spec fn sub_spec(self, o: LocalTime) -> LocalDuration { arbitrary() }
}
pub struct Session { pub id: NodeId, pub addr: Address, pub link: Link, pub state: State, pub subscribe: Option<Subscribe>, pub last_active: LocalTime }
impl Session { #[verifier::external_body] pub fn to_connected(&mut self, since: LocalTime) ensures final(self).id == old(self).id { unimplemented!() } }
pub struct Sessions;
impl Sessions {
    #[verifier::external_body]
    pub fn get_mut(&mut self, id: &NodeId) -> (r: Option<&mut Session>) ensures r is Some ==> r->Some_0.id == *id { unimplemented!() }
}
pub struct Outbox;
impl Outbox {
    /// SINK (C11): sends `msg` to the peer of `session`. A refs announcement may only go to a peer allowed to see the repository.
    #[verifier::external_body]
    pub fn write(&mut self, session: &Session, msg: Message)
        requires
            // ... and a refs announcement of a repository whose visibility cannot be determined is not forwarded
            msg matches Message::Announcement(a) ==> (a.message matches AnnouncementMessage::Refs(r) ==> have(r.rid)),   //[C11]
            // the repository is in storage => its document makes it visible to the peer
            msg matches Message::Announcement(a) ==> (a.message matches AnnouncementMessage::Refs(r) ==> (have(r.rid) ==> visible(r.rid, Did(session.id)))),   //[C11]
    { unimplemented!() }
}

//@extract crates/radicle-node/src/service/message.rs
//@  item const ADDRESS_LIMIT
//@  item const REF_REMOTE_LIMIT
//@  item const INVENTORY_LIMIT
//@  item struct Subscribe
//@  item struct NodeAnnouncement
//@  item struct RefsAnnouncement
//@  item struct InventoryAnnouncement
//@  item enum Info
//@  item enum AnnouncementMessage
//@    derive Clone, PartialEq, Eq, Debug
//@  impl AnnouncementMessage
//@    add
//@      pub open spec fn ts(self) -> u64 {
//@          match self { Self::Inventory(m) => m.timestamp.0, Self::Refs(m) => m.timestamp.0, Self::Node(m) => m.timestamp.0 }
//@      }
//@    fn timestamp
//@      ret r
//@      ensures
//@        r.0 == self.ts()
//@    fn is_node_announcement
//@      ret r
//@      ensures
//@        r == (self is Node)
//@  item struct Announcement
//@  impl Announcement
//@    drop POW_PARAMS, POW_SALT
//@    fn verify
//@      ret r
//@      ensures
//@        r == ed_ok(self.node, ser(self.message), self.signature)
//@    fn timestamp
//@      ret r
//@      ensures
//@        r.0 == self.message.ts()
//@  item enum Message
//@    derive Clone, PartialEq, Eq, Debug
//@  item struct Ping
//@  impl From<Announcement> for Message
//@    fn from
//@      ret r
//@      ensures
//@        r == Message::Announcement(ann)
//@end
impl vstd::std_specs::convert::FromSpecImpl<Announcement> for Message { open spec fn obeys_from_spec() -> bool { true } open spec fn from_spec(a: Announcement) -> Message { Message::Announcement(a) } }
impl Message { #[verifier::external_body] pub fn log(&self, level: log::Level, remote: &NodeId, link: Link) { unimplemented!() } }

//@extract crates/radicle-node/src/service.rs
//@  item struct Service
//@    fields config, signer, storage, db, sessions, clock, relayed_by, outbox, limiter
//@  impl <D, S, G> Service<D, S, G>
//@    fn node_id
//@      attr #[verifier::external_body]
//@      ret r
//@      ensures
//@        r == local_id()
//@  impl <D, S, G> Service<D, S, G> where D: Store, S: ReadStorage + 'static, G: crypto::signature::Signer<crypto::Signature>,
//@    add
//@      #[verifier::external_body] fn nid(&self) -> (r: &NodeId) ensures *r == local_id() { unimplemented!() }
//@      #[verifier::external_body] pub fn database_mut(&mut self) -> &mut Stores<D> { unimplemented!() }
//@      /// the per-type processing that follows the store in handle_announcement (fetching, routing, address book):
//@      /// NOT verified in this unit; arbitrary effect on the service, returns Ok(relay) or Ok(None) (ASSUMED, by inspection of its `return` statements)
//@      #[verifier::external_body]
//@      fn vx_process_stored(&mut self, announcer: &NodeId, relayer_addr: &Address, message: &AnnouncementMessage, relay: Option<gossip::AnnouncementId>) -> (r: Result<Option<gossip::AnnouncementId>, session::Error>)
//@          ensures r is Ok && (r->Ok_0 == relay || r->Ok_0 is None),
//@              // ASSUMED (by inspection): the per-type processing neither stores gossip nor forgets who delivered what
//@              final(self).db.g_took() == old(self).db.g_took(),
//@              forall|i: gossip::AnnouncementId, n: NodeId| tracked(old(self).relayed_by, i, n) ==> #[trigger] tracked(final(self).relayed_by, i, n),
//@      { unimplemented!() }
//@      #[verifier::external_body] fn relay(&mut self, id: gossip::AnnouncementId, ann: Announcement) { unimplemented!() }
//@      #[verifier::external_body] pub fn handle_info(&mut self, remote: NodeId, info: &Info) -> Result<(), session::Error> { unimplemented!() }
//@      /// stand-in for `self.relayed_by.entry(id).or_default().push(*relayer)` (HashMap entry API): ASSUMED to do what it says
//@      #[verifier::external_body] fn vx_track_relayer(&mut self, id: gossip::AnnouncementId, relayer: &NodeId)
//@          ensures tracked(final(self).relayed_by, id, *relayer),
//@              forall|i: gossip::AnnouncementId, n: NodeId| tracked(old(self).relayed_by, i, n) ==> #[trigger] tracked(final(self).relayed_by, i, n),
//@              final(self).db == old(self).db, final(self).clock == old(self).clock,
//@      { unimplemented!() }
//@    fn handle_announcement
//@      desugar_try
//@      ret res
//@      body_sub (?s)log::debug!\(\s*target: "service",\s*"Stored announcement from.*?\);\n => 
//@      body_sub self\.relayed_by\.entry\(id\)\.or_default\(\)\.push\(\*relayer\); => self.vx_track_relayer(id, relayer);
//@      body_sub now - timestamp\.to_local_time\(\) <= MAX_TIME_DELTA => vx_recent(now, timestamp)
//@      body_sub relay\.then_some\(id\) => if relay { Some(id) } else { None }
//@      body_sub (?s)        match message \{\n            // Process a peer inventory update announcement by \(maybe\) fetching\..*\n        Ok\(None\)\n => self.vx_process_stored(announcer, relayer_addr, message, relay)\n
//@      requires
//@        old(self).clock == now_ghost()
//@      ensures
//@        # C10: nothing is reported as stored/relayable unless it was acceptable
//@        res is Ok && res->Ok_0 is Some ==> acceptable(*announcement, now_ghost())
//@        # C10: whoever delivers an announcement that the gossip store takes (to be relayed on the next tick) is on record
//@        # as a deliverer of it -- whether or not this call decides to relay -- so that it is never echoed back to that peer
//@        forall|i: int| old(self).db.g_took().len() <= i < final(self).db.g_took().len() ==> tracked(final(self).relayed_by, #[trigger] final(self).db.g_took()[i], *relayer) //[C10]
//@      head
//@        proof { ids_lawful(); }
//@    fn handle_message
//@      attr #[verifier::exec_allows_no_decreases_clause]
//@      desugar_try
//@      desugar_for
//@      body_sub Ping::MAX_PONG_ZEROES => MAX_PONG_ZEROES
//@      # (the relayer-tracking statement, should it be moved here from handle_announcement)
//@      body_sub? self\.relayed_by\.entry\(id\)\.or_default\(\)\.push\(\*relayer\); => self.vx_track_relayer(id, relayer);
//@      loop 1
//@        invariant
//@          peer.id == *remote
//@      requires
//@        old(self).clock == now_ghost()
//@      head
//@        proof { ids_lawful(); }
//@end

//@canary
} // verus!
fn main() {}
