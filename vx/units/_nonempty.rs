// ---- stand-in for nonempty::NonEmpty<T> (external crate) ----------------------------------
// Same representation as the crate (`head`, `tail`); the listed method contracts are ASSUMED.
#[derive(Debug, Clone)]
pub struct NonEmpty<T> { pub head: T, pub tail: Vec<T> }
impl<T> NonEmpty<T> {
    pub open spec fn view(self) -> Seq<T> { seq![self.head] + self.tail@ }
    /// ASSUMED (nonempty crate): `contains` is membership under a lawful `PartialEq`.
    #[verifier::external_body]
    pub fn contains(&self, x: &T) -> (r: bool) where T: PartialEq
        ensures r == self.view().contains(*x)
    { unimplemented!() }
    /// ASSUMED (nonempty crate): `len` is 1 + tail length.
    #[verifier::external_body]
    pub fn len(&self) -> (r: usize)
        ensures r == self.view().len(), r >= 1
    { unimplemented!() }
    /// ASSUMED (nonempty crate): `from_vec` is None exactly for the empty vector and keeps order.
    #[verifier::external_body]
    pub fn from_vec(v: Vec<T>) -> (r: Option<NonEmpty<T>>)
        ensures (v@.len() == 0) == (r is None), r is Some ==> r->Some_0.view() == v@
    { unimplemented!() }
    /// ASSUMED (nonempty crate): `new(e)` is the singleton.
    #[verifier::external_body]
    pub fn new(e: T) -> (r: NonEmpty<T>)
        ensures r.view() == seq![e]
    { unimplemented!() }
    #[verifier::external_body]
    pub fn first(&self) -> (r: &T)
        ensures *r == self.view()[0]
    { unimplemented!() }
}
