// Unit `cob_op` (C06): an operation that is rejected leaves no trace in the object state.
// Real code: <Issue|Patch|Identity as store::Cob>::op in crates/radicle/src/cob/{issue,patch,identity}.rs.
use vstd::prelude::*;
//@include _prelude.rs

verus! {
//@include _panic.rs

// ---- environment (declarations only) ------------------------------------------------------------------
#[derive(Clone, Copy, PartialEq, Eq, Debug)] pub struct EntryId(pub [u8; 20]);
#[derive(Clone, Copy, PartialEq, Eq, Debug)] pub struct RepoId(pub [u8; 20]);
#[derive(Clone, Copy, PartialEq, Eq, Debug)] pub struct ActorId(pub [u8; 32]);
#[derive(Clone, Copy, PartialEq, Eq, Debug)] pub struct Timestamp(pub u64);
pub struct Doc;
pub struct DocAt;
impl std::ops::Deref for DocAt { type Target = Doc; #[verifier::external_body] fn deref(&self) -> &Doc { unimplemented!() } }
pub mod identity { pub struct DocError; }
pub trait ReadRepository {}
pub mod cob {
    pub struct Entry;
    /// stand-in for nonempty::NonEmpty<A> consumed by `for action in op.actions` (a finite sequence; `next` pops the front)
    pub struct Actions<A>(pub Vec<A>);
    impl<A> Actions<A> { #[verifier::external_body] pub fn next(&mut self) -> Option<A> { unimplemented!() } }
    pub struct Op<A> { pub id: crate::EntryId, pub actions: Actions<A>, pub author: crate::ActorId, pub timestamp: crate::Timestamp }
    impl<A> Op<A> {
        #[verifier::external_body]
        pub fn identity_doc<R: crate::ReadRepository>(&self, repo: &R) -> Result<Option<crate::DocAt>, crate::identity::DocError> { unimplemented!() }
    }
}
/// stand-in for `concurrent.into_iter().collect::<Vec<_>>()`
#[verifier::external_body]
pub fn vx_collect<'a, I: IntoIterator<Item = &'a cob::Entry>>(i: I) -> Vec<&'a cob::Entry> { unimplemented!() }
/// stand-in for `self.timeline.contains(&id)` (Vec::contains): result arbitrary
#[verifier::external_body]
pub fn vx_contains(v: &Vec<EntryId>, id: &EntryId) -> bool { unimplemented!() }

pub mod store {
    use vstd::prelude::*;
    /// `radicle::cob::store::Cob`, the one method under contract. From the statement (C06): a rejected operation
    /// never partially takes effect -- on `Err` the object is exactly what it was.
    pub trait Cob: Sized {
        type Action;
        type Error;
        fn op<'a, R: crate::ReadRepository, I: IntoIterator<Item = &'a crate::cob::Entry>>(&mut self, op: crate::cob::Op<Self::Action>, concurrent: I, repo: &R) -> (r: Result<(), <Self as Cob>::Error>)
            ensures r is Err ==> *final(self) == *old(self);
    }
}

pub mod issue_env {
    use vstd::prelude::*;
    use crate::*;
    pub struct Action;
    pub enum Error { MissingIdentity, Doc(identity::DocError), Other }
    impl From<identity::DocError> for Error { fn from(e: identity::DocError) -> Self { Error::Doc(e) } }
    impl vstd::std_specs::convert::FromSpecImpl<identity::DocError> for Error { open spec fn obeys_from_spec() -> bool { true } open spec fn from_spec(e: identity::DocError) -> Self { Error::Doc(e) } }
    pub type Op = cob::Op<Action>;
}
pub mod patch_env {
    use vstd::prelude::*;
    use crate::*;
    pub struct Action;
    pub enum Error { MissingIdentity, Doc(identity::DocError), Other }
    impl From<identity::DocError> for Error { fn from(e: identity::DocError) -> Self { Error::Doc(e) } }
    impl vstd::std_specs::convert::FromSpecImpl<identity::DocError> for Error { open spec fn obeys_from_spec() -> bool { true } open spec fn from_spec(e: identity::DocError) -> Self { Error::Doc(e) } }
    pub type Op = cob::Op<Action>;
}
pub mod identity_env {
    use crate::*;
    pub struct Action;
    pub enum ApplyError { UnexpectedState, Redacted, Other }
    pub type Op = cob::Op<Action>;
}

//@extract crates/radicle/src/cob/issue.rs
//@  inmod issue
//@    use issue_env::*
//@    item struct Issue
//@      fields title
//@      derive Clone
//@    impl Issue
//@      add
//@        /// applies one action: ARBITRARY effect on the issue, arbitrary result (authorization + action, see unit cob_auth)
//@        #[verifier::external_body]
//@        fn op_action<R: ReadRepository>(&mut self, action: Action, id: EntryId, author: ActorId, timestamp: Timestamp, concurrent: &[&cob::Entry], doc: &Doc, repo: &R) -> Result<(), Error> { unimplemented!() }
//@    impl store::Cob for Issue
//@      fn op
//@        attr #[verifier::exec_allows_no_decreases_clause]
//@        desugar_try
//@        desugar_for
//@        body_sub concurrent\.into_iter\(\)\.collect::<Vec<_>>\(\) => vx_collect(concurrent)
//@end

//@extract crates/radicle/src/cob/patch.rs
//@  inmod patch
//@    use patch_env::*
//@    item struct Patch
//@      fields title, timeline
//@      derive Clone
//@    impl Patch
//@      add
//@        #[verifier::external_body]
//@        fn op_action<R: ReadRepository>(&mut self, action: Action, id: EntryId, author: ActorId, timestamp: Timestamp, concurrent: &[&cob::Entry], doc: &Doc, repo: &R) -> Result<(), Error> { unimplemented!() }
//@    impl store::Cob for Patch
//@      fn op
//@        attr #[verifier::exec_allows_no_decreases_clause]
//@        desugar_try
//@        desugar_for
//@        body_sub concurrent\.into_iter\(\)\.collect::<Vec<_>>\(\) => vx_collect(concurrent)
//@        body_sub debug_assert!\(!self\.timeline\.contains\(&op\.id\)\); => 
//@end

//@extract crates/radicle/src/cob/identity.rs
//@  inmod identity_cob
//@    use identity_env::*
//@    item struct Identity
//@      fields id, timeline
//@      derive Clone
//@    impl Identity
//@      add
//@        #[verifier::external_body]
//@        fn action<R: ReadRepository>(&mut self, action: Action, entry: EntryId, author: ActorId, timestamp: Timestamp, concurrent: &[&cob::Entry], repo: &R) -> Result<(), ApplyError> { unimplemented!() }
//@    impl store::Cob for Identity
//@      fn op
//@        attr #[verifier::exec_allows_no_decreases_clause]
//@        desugar_for
//@        body_sub concurrent\.into_iter\(\)\.collect::<Vec<_>>\(\) => vx_collect(concurrent)
//@        body_sub debug_assert!\(!\w+\.timeline\.contains\(&id\)\); => 
//@end

//@canary
} // verus!
fn main() {}
