// Unit `fetch_ancestry` (C02, C01): the ancestry classification that FetchState::run and the ref-update policies rely on.
// Real code: repository::ancestry (crates/radicle-fetch/src/git/repository.rs).
use vstd::prelude::*;
//@include _prelude.rs

verus! {
//@include _panic.rs

// ---- environment ----------------------------------------------------------------------------------------------
pub mod raw { #[derive(Clone, Copy, PartialEq, Eq, Debug)] pub struct Oid(pub [u8; 20]); pub struct Error; }
#[derive(Clone, Copy, PartialEq, Eq, Debug)] pub struct Oid(pub raw::Oid);
impl std::ops::Deref for Oid { type Target = raw::Oid; fn deref(&self) -> (r: &raw::Oid) ensures *r == self.0 { &self.0 } }
/// ASSUMED (derive(PartialEq) on a byte-array newtype): structural equality
impl vstd::std_specs::cmp::PartialEqSpecImpl for Oid { open spec fn obeys_eq_spec() -> bool { true } open spec fn eq_spec(&self, o: &Self) -> bool { *self == *o } }
/// the commit an object id peels to (libgit2)
pub uninterp spec fn peel(o: Oid) -> Oid;
/// libgit2 `graph_ahead_behind(local, upstream)`: number of commits reachable from `local` but not `upstream`, and vice versa
pub uninterp spec fn ahead_behind(local: raw::Oid, upstream: raw::Oid) -> (usize, usize);
pub struct Backend;
impl Backend {
    /// ASSUMED (libgit2): returns the ghost counts or an error
    #[verifier::external_body]
    pub fn graph_ahead_behind(&self, local: raw::Oid, upstream: raw::Oid) -> (r: Result<(usize, usize), raw::Error>)
        ensures r is Ok ==> r->Ok_0 == ahead_behind(local, upstream)
    { unimplemented!() }
}
pub struct Repository { pub backend: Backend }
pub mod error {
    pub enum Ancestry { Missing { oid: crate::Oid }, Other }
    impl From<crate::raw::Error> for Ancestry { #[verifier::external_body] fn from(e: crate::raw::Error) -> Self { unimplemented!() } }
}
/// ASSUMED (libgit2 find_object + peel): returns the commit the object peels to, or an error
#[verifier::external_body]
fn find_and_peel(repo: &Repository, oid: Oid) -> (r: Result<Oid, error::Ancestry>) ensures r is Ok ==> r->Ok_0 == peel(oid) { unimplemented!() }

/// From the statement (C02: "backwards", "a history that diverges"; C01: "rewound or diverged"): `new` relative to `old`.
pub open spec fn ancestry_spec(old: Oid, new: Oid) -> Ancestry {
    let o = peel(old); let n = peel(new);
    if o == n { Ancestry::Equal } else {
        let ab = ahead_behind(n.0, o.0);
        if ab.0 > 0 && ab.1 == 0 { Ancestry::Ahead }         // strictly descends from the stored commit
        else if ab.0 == 0 && ab.1 > 0 { Ancestry::Behind }   // strict ancestor of the stored commit: a rewind
        else { Ancestry::Diverged }                          // commits on both sides (or unrelated): a fork
    }
}

//@extract crates/radicle-fetch/src/git/repository.rs
//@  item enum Ancestry
//@    derive Debug, Clone, Copy, PartialEq, Eq
//@  fn ancestry
//@    desugar_try
//@    ret r
//@    body_sub (?s)\s*\.map_err\(\|err\| error::Ancestry::Check \{ old, new, err \}\)\? => ?
//@    ensures
//@      r is Ok ==> r->Ok_0 == ancestry_spec(old, new) //[C02,C01]
//@end

//@canary
} // verus!
fn main() {}
