// Unit `fetch_ancestry` (C02, C01): the ancestry classification that FetchState::run and the ref-update policies rely on,
// and the policy decision of a single direct ref update.
// Real code: repository::{ancestry, direct} (crates/radicle-fetch/src/git/repository.rs), refs::Policy.
use vstd::prelude::*;
//@include _prelude.rs

verus! {
//@include _panic.rs

// ---- environment ----------------------------------------------------------------------------------------------
pub mod raw { #[derive(Clone, Copy, PartialEq, Eq, Debug)] pub struct Oid(pub [u8; 20]); pub struct Error; }
#[derive(Clone, Copy, PartialEq, Eq, Debug)] pub struct Oid(pub raw::Oid);
impl std::ops::Deref for Oid { type Target = raw::Oid; fn deref(&self) -> (r: &raw::Oid) ensures *r == self.0 { &self.0 } }
/// ASSUMED (derive(PartialEq) on a byte-array newtype): structural equality
impl vstd::std_specs::cmp::PartialEqSpecImpl for Oid { open spec fn obeys_eq_spec() -> bool { true } open spec fn eq_spec(&self, o: &Self) -> bool { *self == *o } }
/// the commit an object id peels to (libgit2)
pub uninterp spec fn peel(o: Oid) -> Oid;
/// libgit2 `graph_ahead_behind(local, upstream)`: number of commits reachable from `local` but not `upstream`, and vice versa
pub uninterp spec fn ahead_behind(local: raw::Oid, upstream: raw::Oid) -> (usize, usize);
pub struct Backend;
impl Backend {
    /// ASSUMED (libgit2): returns the ghost counts or an error
    #[verifier::external_body]
    pub fn graph_ahead_behind(&self, local: raw::Oid, upstream: raw::Oid) -> (r: Result<(usize, usize), raw::Error>)
        ensures r is Ok ==> r->Ok_0 == ahead_behind(local, upstream)
    { unimplemented!() }
}
pub struct Repository { pub backend: Backend }
/// a namespaced ref name (radicle::git::Namespaced, external): opaque
#[derive(Debug)] pub struct Namespaced<'a> { pub id: u64, pub p: std::marker::PhantomData<&'a u8> }
pub struct RefString { pub id: u64 }
impl<'a> Clone for Namespaced<'a> { #[verifier::external_body] fn clone(&self) -> (r: Self) ensures r == *self { unimplemented!() } }
impl<'a> Namespaced<'a> {
    #[verifier::external_body] pub fn as_ref(&self) -> (r: &Namespaced<'a>) ensures *r == *self { unimplemented!() }
    #[verifier::external_body] pub fn to_ref_string(&self) -> RefString { unimplemented!() }
    #[verifier::external_body] pub fn to_owned(&self) -> Namespaced<'static> { unimplemented!() }
}
pub enum Either<L, R> { Left(L), Right(R) }
pub struct Qualified<'a> { pub p: std::marker::PhantomData<&'a u8> }
/// radicle::storage::RefUpdate (what was done to a ref)
pub enum RefUpdate { Updated { name: RefString, old: Oid, new: Oid }, Created { name: RefString, oid: Oid }, Deleted { name: RefString, oid: Oid }, Skipped { name: RefString, oid: Oid } }
impl RefUpdate {
    /// RefUpdate::from(name, old, new) (radicle::storage, not extracted): which variant is irrelevant here
    #[verifier::external_body] pub fn from(name: RefString, old: Oid, new: Oid) -> RefUpdate { unimplemented!() }
}
/// ghost: the commit `name` points at in the repository before the update (None if the ref does not exist)
pub uninterp spec fn ref_at(name: u64) -> Option<Oid>;
/// ASSUMED (libgit2 refname_to_id): the current target of the ref, if it exists
#[verifier::external_body]
pub fn refname_to_id<'a>(repo: &Repository, name: Namespaced<'a>) -> (r: Result<Option<Oid>, error::Resolve>) ensures r is Ok ==> r->Ok_0 == ref_at(name.id) { unimplemented!() }
impl From<Oid> for raw::Oid { fn from(o: Oid) -> (r: raw::Oid) ensures r == o.0 { o.0 } }
impl vstd::std_specs::convert::FromSpecImpl<Oid> for raw::Oid { open spec fn obeys_from_spec() -> bool { true } open spec fn from_spec(o: Oid) -> raw::Oid { o.0 } }
impl Backend {
    /// libgit2 `reference(name, target, force, msg)`: the WRITE to the repository. A returned Ok means the ref now points at `target`.
    #[verifier::external_body]
    pub fn reference<'a>(&self, name: &Namespaced<'a>, target: raw::Oid, force: bool, msg: &str) -> Result<(), raw::Error> { unimplemented!() }
}
pub mod error {
    pub struct Resolve;
    pub enum Update { Ancestry(Ancestry), Create { name: crate::Namespaced<'static>, target: crate::Oid, err: crate::raw::Error }, NonFF { name: crate::Namespaced<'static>, new: crate::Oid, cur: crate::Oid }, Resolve(Resolve) }
    impl From<Ancestry> for Update { fn from(e: Ancestry) -> (r: Update) ensures r == Update::Ancestry(e) { Update::Ancestry(e) } }
    impl vstd::std_specs::convert::FromSpecImpl<Ancestry> for Update { open spec fn obeys_from_spec() -> bool { true } open spec fn from_spec(e: Ancestry) -> Update { Update::Ancestry(e) } }
    impl From<Resolve> for Update { fn from(e: Resolve) -> (r: Update) ensures r == Update::Resolve(e) { Update::Resolve(e) } }
    impl vstd::std_specs::convert::FromSpecImpl<Resolve> for Update { open spec fn obeys_from_spec() -> bool { true } open spec fn from_spec(e: Resolve) -> Update { Update::Resolve(e) } }
    pub enum Ancestry { Missing { oid: crate::Oid }, Other }
    impl From<crate::raw::Error> for Ancestry { #[verifier::external_body] fn from(e: crate::raw::Error) -> Self { unimplemented!() } }
}
/// ASSUMED (libgit2 find_object + peel): returns the commit the object peels to, or an error
#[verifier::external_body]
fn find_and_peel(repo: &Repository, oid: Oid) -> (r: Result<Oid, error::Ancestry>) ensures r is Ok ==> r->Ok_0 == peel(oid) { unimplemented!() }

/// From the statement (C02: "backwards", "a history that diverges"; C01: "rewound or diverged"): `new` relative to `old`.
pub open spec fn ancestry_spec(old: Oid, new: Oid) -> Ancestry {
    let o = peel(old); let n = peel(new);
    if o == n { Ancestry::Equal } else {
        let ab = ahead_behind(n.0, o.0);
        if ab.0 > 0 && ab.1 == 0 { Ancestry::Ahead }         // strictly descends from the stored commit
        else if ab.0 == 0 && ab.1 > 0 { Ancestry::Behind }   // strict ancestor of the stored commit: a rewind
        else { Ancestry::Diverged }                          // commits on both sides (or unrelated): a fork
    }
}

//@extract crates/radicle-fetch/src/git/refs/update.rs
//@  item enum Policy
//@    derive Clone, Copy, Debug
//@  item enum Update
//@    derive
//@end

/// From the statements: what a direct update of `name` to `target` under policy `no_ff` may do, given the current tip.
///  * C01 (data refs, Policy::Allow): the ref ends up at `target` whatever the history relation -- the namespace must match the
///    signed refs afterwards ("each pointing at the listed object");
///  * C02 (rad/sigrefs of delegates: Abort, of others: Reject): the ref is never moved backwards or onto a diverging history:
///    a rewind is rejected, a fork is rejected (Reject) or aborts the fetch (Abort).
pub open spec fn direct_spec(name: u64, target: Oid, no_ff: Policy, r: Result<Updated<'_>, error::Update>) -> bool {
    match ref_at(name) {
        None => r is Ok ==> r->Ok_0 is Accepted,
        Some(prev) => match ancestry_spec(prev, target) {
            Ancestry::Equal => r is Ok ==> r->Ok_0 is Accepted,                       // (reported as Skipped)
            Ancestry::Ahead => r is Ok ==> r->Ok_0 is Accepted,
            Ancestry::Behind => r is Ok ==> ((no_ff is Allow) == (r->Ok_0 is Accepted)),
            Ancestry::Diverged => (no_ff is Allow ==> (r is Ok ==> r->Ok_0 is Accepted))
                && (no_ff is Reject ==> (r is Ok ==> r->Ok_0 is Rejected)) && (no_ff is Abort ==> r is Err),
        },
    }
}

impl<'a> vstd::std_specs::convert::FromSpecImpl<RefUpdate> for Updated<'a> { open spec fn obeys_from_spec() -> bool { true } open spec fn from_spec(up: RefUpdate) -> Updated<'a> { Updated::Accepted(up) } }
impl<'a> vstd::std_specs::convert::FromSpecImpl<Update<'a>> for Updated<'a> { open spec fn obeys_from_spec() -> bool { true } open spec fn from_spec(up: Update<'a>) -> Updated<'a> { Updated::Rejected(up) } }
//@extract crates/radicle-fetch/src/git/repository.rs
//@  item enum Updated
//@  impl From<RefUpdate> for Updated<'_>
//@    fn from
//@      ret r
//@      ensures
//@        r == Updated::Accepted(up)
//@  impl <'a> From<Update<'a>> for Updated<'a>
//@    fn from
//@      ret r
//@      ensures
//@        r == Updated::Rejected(up)
//@  fn direct
//@    desugar_try
//@    ret r
//@    body_sub (?s)\s*\.map_err\(\|err\| error::Update::Create \{\s*name: name\.to_owned\(\),\s*target,\s*err,\s*\}\)\? => .map_err(|err| -> (o: error::Update) { error::Update::Create { name: name.to_owned(), target, err } })?
//@    # Verus has no or-pattern + guard: `A | B if G =>` becomes `_ if matches!(scrutinee, A | B) && G =>` (the patterns bind nothing)
//@    body_sub Ancestry::Behind \| Ancestry::Diverged if matches!\(no_ff, Policy::Allow\) => _ if matches!(ancestry, Ancestry::Behind | Ancestry::Diverged) && matches!(no_ff, Policy::Allow)
//@    ensures
//@      direct_spec(name.id, target, no_ff, r) //[C01,C02]
//@  item enum Ancestry
//@    derive Debug, Clone, Copy, PartialEq, Eq
//@  fn ancestry
//@    desugar_try
//@    ret r
//@    body_sub (?s)\s*\.map_err\(\|err\| error::Ancestry::Check \{ old, new, err \}\)\? => ?
//@    ensures
//@      r is Ok ==> r->Ok_0 == ancestry_spec(old, new) //[C02,C01]
//@end

//@canary
} // verus!
fn main() {}
