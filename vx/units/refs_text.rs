// Unit `refs_text` (C20, first sentence): the canonical signed-refs text has one line `<hex oid> <name>\n` per ref, in
// the map's iteration order, nothing else; parsing reads every line back as written, skipping only zero oids; and for
// every set of valid names and non-zero oids the text parses back to the same set.
// Real code: Refs::{canonical, from_canonical} (crates/radicle/src/storage/refs.rs), relative to an ASSUMED model of the
// text primitives they call (String/str, BufRead::lines, Display/FromStr of Oid, TryFrom<&str> for RefString).
#![feature(pattern)]
use vstd::prelude::*;
use std::collections::BTreeMap;
use std::str::pattern::Pattern;
//@include _prelude.rs

verus! {
//@include _panic.rs

// ---- text model (all ASSUMED) ----------------------------------------------------------------------------
pub mod io { #[derive(Debug)] pub struct Error; }
pub mod git2 { #[derive(Debug)] pub struct Error; }
/// UTF-8 encoding of a text
pub uninterp spec fn utf8(t: Seq<char>) -> Seq<u8>;
/// the lines `BufRead::lines` yields for a byte buffer (split at '\n', a preceding '\r' dropped, UTF-8 decoded)
pub uninterp spec fn text_lines(b: Seq<u8>) -> Seq<Seq<char>>;
/// lower-case hex rendering of an object id (Display for Oid)
pub uninterp spec fn hex(o: Oid) -> Seq<char>;
/// FromStr for Oid / TryFrom<&str> for RefString as partial functions on texts
pub uninterp spec fn oid_of(t: Seq<char>) -> Option<Oid>;
pub uninterp spec fn ref_of(t: Seq<char>) -> Option<git::RefString>;
/// the single character a `Pattern` stands for, if it is a `char`
pub uninterp spec fn pat_char<P>(p: P) -> Option<char>;
/// `str::trim`, uninterpreted
pub uninterp spec fn trimmed(t: Seq<char>) -> Seq<char>;

#[derive(Clone, Copy, PartialEq, Eq, Debug)] pub struct Oid(pub [u8; 20]);
impl Oid {
    pub open spec fn zero(self) -> bool { forall|i: int| 0 <= i < 20 ==> self.0[i] == 0 }
    #[verifier::external_body] pub fn is_zero(&self) -> (r: bool) ensures r == self.zero() { unimplemented!() }
    /// ASSUMED (Display for Oid)
    #[verifier::external_body] pub fn to_string(&self) -> (r: String) ensures r@ == hex(*self) { unimplemented!() }
    /// ASSUMED (FromStr for Oid)
    #[verifier::external_body] pub fn from_str(s: &str) -> (r: Result<Oid, git2::Error>) ensures r is Ok ==> oid_of(s@) == Some(r->Ok_0), r is Err ==> oid_of(s@) is None { unimplemented!() }
}
pub mod git {
    use vstd::prelude::*;
    pub mod fmt { #[derive(Debug)] pub struct Error; }
    #[derive(Clone, PartialEq, Eq, PartialOrd, Ord, Debug)] pub struct RefString { pub opaque: u64 }
    impl RefString {
        pub uninterp spec fn text(self) -> Seq<char>;
        #[verifier::external_body] pub fn as_refstr(&self) -> (r: &RefStr) ensures r.text() == self.text() { unimplemented!() }
    }
    /// `git::RefStr` / `git::Qualified` (vocabulary of the file: comparisons of a name with a well-known ref)
    #[derive(Debug)] pub struct RefStr { pub opaque: u64 }
    impl RefStr { pub uninterp spec fn text(&self) -> Seq<char>; }
    impl PartialEq for RefStr { #[verifier::external_body] fn eq(&self, o: &RefStr) -> (r: bool) ensures r == (self.text() == o.text()) { unimplemented!() } }
    impl vstd::std_specs::cmp::PartialEqSpecImpl for RefStr { open spec fn obeys_eq_spec() -> bool { true } open spec fn eq_spec(&self, o: &RefStr) -> bool { self.text() == o.text() } }
    pub struct Qualified { pub opaque: u64 }
    impl Qualified {
        pub uninterp spec fn text(&self) -> Seq<char>;
        #[verifier::external_body] pub fn as_ref(&self) -> (r: &RefStr) ensures r.text() == self.text() { unimplemented!() }
    }
    impl std::ops::Deref for RefString { type Target = str; #[verifier::external_body] fn deref(&self) -> (r: &str) ensures r@ == self.text() { unimplemented!() } }
    impl<'a> TryFrom<&'a str> for RefString {
        type Error = fmt::Error;
        /// ASSUMED (git-ref-format): validation of a reference name
        #[verifier::external_body] fn try_from(s: &'a str) -> (r: Result<RefString, fmt::Error>) ensures r is Ok ==> crate::ref_of(s@) == Some(r->Ok_0), r is Err ==> crate::ref_of(s@) is None { unimplemented!() }
    }
    impl<'a> vstd::std_specs::convert::TryFromSpecImpl<&'a str> for RefString {
        open spec fn obeys_try_from_spec() -> bool { false }
        open spec fn try_from_spec(s: &'a str) -> Result<RefString, fmt::Error> { arbitrary() }
    }
}
pub const SIGREFS_BRANCH: git::Qualified = git::Qualified { opaque: 0 };
/// ASSUMED (derive(Ord) on RefString): lawful order, so that BTreeMap's vstd contracts apply
#[verifier::external_body]
pub proof fn names_lawful() ensures vstd::laws_cmp::obeys_cmp_spec::<git::RefString>() {}

/// ASSUMED (alloc/core): the text primitives
pub assume_specification[String::into_bytes](s: String) -> (r: Vec<u8>) ensures r@ == utf8(s@);
pub assume_specification<P: Pattern>[str::split_once](s: &str, p: P) -> (r: Option<(&str, &str)>)
    ensures pat_char(p) matches Some(c) ==> (match split_once_spec(s@, c) { Some((a, b)) => r matches Some((x, y)) && x@ == a && y@ == b, None => r is None });
pub assume_specification[str::trim](s: &str) -> (r: &str) ensures r@ == trimmed(s@);
#[verifier::external_body] pub proof fn pat_char_char(c: char) ensures pat_char::<char>(c) == Some(c) {}

/// index of the first occurrence of `c` (or the length)
pub open spec fn first_idx(s: Seq<char>, c: char) -> int decreases s.len() {
    if s.len() == 0 { 0 } else if s[0] == c { 0 } else { 1 + first_idx(s.skip(1), c) }
}
pub open spec fn split_once_spec(s: Seq<char>, c: char) -> Option<(Seq<char>, Seq<char>)> {
    let i = first_idx(s, c);
    if i < s.len() { Some((s.take(i), s.skip(i + 1))) } else { None }
}

/// stand-in for `BufReader::new(bytes).lines()`: the line iterator as a ghost position in `text_lines`
pub struct BufReader<'a> { pub src: &'a [u8] }
pub struct Lines<'a> { pub src: &'a [u8], pub k: Ghost<int> }
impl<'a> BufReader<'a> {
    pub fn new(bytes: &'a [u8]) -> (r: BufReader<'a>) ensures r.src@ == bytes@ { BufReader { src: bytes } }
    pub fn lines(self) -> (r: Lines<'a>) ensures r.src@ == self.src@, r.k@ == 0 { Lines { src: self.src, k: Ghost(0) } }
}
impl<'a> Lines<'a> {
    /// ASSUMED (BufRead::lines): yields the lines of the buffer in order (or an I/O / UTF-8 error in place of one)
    #[verifier::external_body]
    pub fn next(&mut self) -> (r: Option<Result<String, io::Error>>)
        ensures
            final(self).src@ == old(self).src@,
            old(self).k@ < text_lines(old(self).src@).len() ==> r is Some && final(self).k@ == old(self).k@ + 1
                && (r->Some_0 is Ok ==> r->Some_0->Ok_0@ == text_lines(old(self).src@)[old(self).k@]),
            old(self).k@ >= text_lines(old(self).src@).len() ==> r is None && final(self).k@ == old(self).k@,
    { unimplemented!() }
}

// ---- statement (C20, first sentence) ---------------------------------------------------------------------
pub type Pair = (git::RefString, Oid);
/// the order in which a BTreeMap with these contents is iterated (ascending keys): ASSUMED to be a function of the contents
pub uninterp spec fn order(m: Map<git::RefString, Oid>) -> Seq<Pair>;
/// ASSUMED (BTreeMap::iter): every entry exactly once
#[verifier::external_body]
pub proof fn order_props(m: Map<git::RefString, Oid>)
    ensures
        forall|i: int| 0 <= i < order(m).len() ==> m.contains_key(#[trigger] order(m)[i].0) && m[order(m)[i].0] == order(m)[i].1,
        forall|k: git::RefString| m.contains_key(k) ==> exists|i: int| 0 <= i < order(m).len() && #[trigger] order(m)[i].0 == k,
        forall|i: int, j: int| 0 <= i < j < order(m).len() ==> order(m)[i].0 != order(m)[j].0,
{}
pub open spec fn line_of(p: Pair) -> Seq<char> { hex(p.1) + seq![' '] + p.0.text() }
/// the canonical text: one line per ref
pub open spec fn canon_text(s: Seq<Pair>) -> Seq<char> decreases s.len() {
    if s.len() == 0 { Seq::empty() } else { canon_text(s.drop_last()) + line_of(s.last()) + seq!['\n'] }
}
pub open spec fn parse_line(l: Seq<char>) -> Option<Pair> {
    match split_once_spec(l, ' ') {
        Some((a, b)) => match (ref_of(b), oid_of(a)) { (Some(n), Some(o)) => Some((n, o)), _ => None },
        None => None,
    }
}
/// what a sequence of lines parses to: every line is read, zero oids are skipped, later lines win
pub open spec fn parse_lines(ls: Seq<Seq<char>>) -> Map<git::RefString, Oid> decreases ls.len() {
    if ls.len() == 0 { Map::empty() } else {
        let m = parse_lines(ls.drop_last());
        match parse_line(ls.last()) { Some((n, o)) => if o.zero() { m } else { m.insert(n, o) }, None => m }
    }
}
pub open spec fn map_of(s: Seq<Pair>) -> Map<git::RefString, Oid> decreases s.len() {
    if s.len() == 0 { Map::empty() } else { map_of(s.drop_last()).insert(s.last().0, s.last().1) }
}
/// ASSUMED (git-ref-format, git2, std): a valid name has no space / newline / carriage return and reads back as itself;
/// a hex oid has no space and reads back as itself; `lines` undoes "one `\n`-terminated line each"
pub open spec fn name_ok(n: git::RefString) -> bool {
    ref_of(n.text()) == Some(n) && !n.text().contains('\n') && !n.text().contains('\r')
}
#[verifier::external_body]
pub proof fn text_axioms()
    ensures
        forall|o: Oid| #[trigger] oid_of(hex(o)) == Some(o) && !hex(o).contains(' ') && !hex(o).contains('\n'),
        forall|s: Seq<Pair>| (forall|i: int| 0 <= i < s.len() ==> name_ok(#[trigger] s[i].0)) ==> #[trigger] text_lines(utf8(canon_text(s))) == s.map_values(|p: Pair| line_of(p)),
{}

pub proof fn lemma_first_idx(a: Seq<char>, b: Seq<char>, c: char)
    requires !a.contains(c)
    ensures first_idx(a + seq![c] + b, c) == a.len()
    decreases a.len()
{
    let s = a + seq![c] + b;
    if a.len() == 0 {
        assert(s[0] == c);
    } else {
        assert(a.contains(a[0]));
        assert(s[0] == a[0]);
        assert(s.skip(1) =~= a.skip(1) + seq![c] + b);
        assert(!a.skip(1).contains(c)) by { if a.skip(1).contains(c) { let j = choose|j: int| 0 <= j < a.skip(1).len() && a.skip(1)[j] == c; assert(a[j + 1] == c); } }
        lemma_first_idx(a.skip(1), b, c);
    }
}
pub proof fn lemma_parse_line(p: Pair)
    requires name_ok(p.0)
    ensures parse_line(line_of(p)) == Some(p)
{
    text_axioms();
    lemma_first_idx(hex(p.1), p.0.text(), ' ');
    let l = line_of(p);
    let i = hex(p.1).len() as int;
    assert(l.take(i) =~= hex(p.1));
    assert(l.skip(i + 1) =~= p.0.text());
}
pub proof fn lemma_parse_map(s: Seq<Pair>)
    requires forall|i: int| 0 <= i < s.len() ==> name_ok(#[trigger] s[i].0) && !s[i].1.zero()
    ensures parse_lines(s.map_values(|p: Pair| line_of(p))) == map_of(s)
    decreases s.len()
{
    let ls = s.map_values(|p: Pair| line_of(p));
    if s.len() > 0 {
        let t = s.drop_last();
        assert(ls.drop_last() =~= t.map_values(|p: Pair| line_of(p)));
        assert forall|i: int| 0 <= i < t.len() implies name_ok(#[trigger] t[i].0) && !t[i].1.zero() by { assert(t[i] == s[i]); }
        lemma_parse_map(t);
        lemma_parse_line(s.last());
        assert(ls.last() == line_of(s.last()));
    }
}
pub proof fn lemma_map_of(s: Seq<Pair>)
    requires forall|i: int, j: int| 0 <= i < j < s.len() ==> s[i].0 != s[j].0
    ensures
        forall|k: git::RefString| #[trigger] map_of(s).contains_key(k) <==> exists|i: int| 0 <= i < s.len() && #[trigger] s[i].0 == k,
        forall|i: int| 0 <= i < s.len() ==> map_of(s)[#[trigger] s[i].0] == s[i].1,
    decreases s.len()
{
    if s.len() > 0 {
        let t = s.drop_last();
        lemma_map_of(t);
        assert forall|k: git::RefString| #[trigger] map_of(s).contains_key(k) <==> exists|i: int| 0 <= i < s.len() && #[trigger] s[i].0 == k by {
            if map_of(s).contains_key(k) {
                assert(map_of(s) == map_of(t).insert(s.last().0, s.last().1));
                if k == s.last().0 { assert(s[s.len() - 1].0 == k); } else {
                    assert(map_of(t).contains_key(k));
                    let i = choose|i: int| 0 <= i < t.len() && #[trigger] t[i].0 == k; assert(t[i] == s[i]); assert(s[i].0 == k);
                }
            }
            if exists|i: int| 0 <= i < s.len() && #[trigger] s[i].0 == k {
                let i = choose|i: int| 0 <= i < s.len() && #[trigger] s[i].0 == k;
                if i < s.len() - 1 { assert(t[i].0 == k); }
            }
        }
        assert forall|i: int| 0 <= i < s.len() implies map_of(s)[#[trigger] s[i].0] == s[i].1 by {
            if i < s.len() - 1 { assert(t[i].0 == s[i].0); assert(s[i].0 != s[s.len() - 1].0); }
        }
    }
}
/// C20, first sentence: for every set of valid reference names and non-zero object ids, the canonical text parses back
/// to the same set (over the contracts of `canonical` and `from_canonical` below)
pub proof fn lemma_roundtrip(m: Map<git::RefString, Oid>)
    requires forall|k: git::RefString| m.contains_key(k) ==> name_ok(k) && !(#[trigger] m[k]).zero()
    ensures parse_lines(text_lines(utf8(canon_text(order(m))))) == m //[C20]
{
    order_props(m);
    text_axioms();
    let s = order(m);
    assert forall|i: int| 0 <= i < s.len() implies name_ok(#[trigger] s[i].0) && !s[i].1.zero() by { assert(m.contains_key(s[i].0)); }
    lemma_parse_map(s);
    lemma_map_of(s);
    assert(map_of(s) =~= m);
}

/// stand-in for `self.iter()` (BTreeMap::iter through Deref): the entries in `order`, as a ghost position
pub struct RefsIter<'a> { pub m: &'a BTreeMap<git::RefString, Oid>, pub k: Ghost<int> }
impl<'a> RefsIter<'a> {
    #[verifier::external_body]
    pub fn next(&mut self) -> (r: Option<(&'a git::RefString, &'a Oid)>)
        ensures
            final(self).m == old(self).m,
            old(self).k@ < order(old(self).m@).len() ==> r is Some && final(self).k@ == old(self).k@ + 1
                && *r->Some_0.0 == order(old(self).m@)[old(self).k@].0 && *r->Some_0.1 == order(old(self).m@)[old(self).k@].1,
            old(self).k@ >= order(old(self).m@).len() ==> r is None && final(self).k@ == old(self).k@,
    { unimplemented!() }
}

//@extract crates/radicle/src/storage/refs.rs
//@  mod canonical
//@    wrap
//@    item enum Error
//@      derive Debug
//@      thiserror_from
//@  item struct Refs
//@    derive
//@  impl Refs
//@    add
//@      pub fn iter(&self) -> (r: RefsIter<'_>) ensures r.m == &self.0, r.k@ == 0 { RefsIter { m: &self.0, k: Ghost(0) } }
//@    fn from_canonical
//@      ret r
//@      attr #[verifier::exec_allows_no_decreases_clause]
//@      desugar_for
//@      nloops 1
//@      loop 1
//@        invariant
//@          0 <= __vx_it1.k@ <= text_lines(bytes@).len() && __vx_it1.src@ == bytes@
//@          refs@ == parse_lines(text_lines(bytes@).take(__vx_it1.k@))
//@          forall|i: int| 0 <= i < __vx_it1.k@ ==> parse_line(#[trigger] text_lines(bytes@)[i]) is Some
//@        ensures
//@          __vx_it1.k@ == text_lines(bytes@).len()
//@      ensures
//@        # C20: every line is read back as written -- split at the first space, nothing trimmed -- and only zero oids are skipped
//@        r is Ok ==> r->Ok_0.0@ == parse_lines(text_lines(bytes@)) //[C20]
//@        r is Ok ==> forall|i: int| 0 <= i < text_lines(bytes@).len() ==> parse_line(#[trigger] text_lines(bytes@)[i]) is Some //[C20]
//@      head
//@        proof { names_lawful(); }
//@      hint_after 1 \.ok_or\(canonical::Error::InvalidFormat\)\?;
//@        let ghost vx_a = oid@;
//@      hint_after 1 \.ok_or\(canonical::Error::InvalidFormat\)\?;
//@        let ghost vx_b = name@;
//@      hint 1 let name = git::RefString::try_from
//@        pat_char_char(' ');
//@        assert(split_once_spec(line@, ' ') == Some((vx_a, vx_b)));
//@      hint_after 1 let oid = Oid::from_str\(oid\)\?;
//@        assert(ref_of(vx_b) == Some(name));
//@        assert(oid_of(vx_a) == Some(oid));
//@      # (at the end of the loop body)
//@      hint 1 \}\s*Ok\(Self\(refs\)\)
//@        assert(text_lines(bytes@).take(__vx_it1.k@).drop_last() =~= text_lines(bytes@).take(__vx_it1.k@ - 1));
//@        assert(text_lines(bytes@).take(__vx_it1.k@).last() == line@);
//@        assert(parse_line(line@) == Some((name, oid)));
//@        names_lawful();
//@        assert(refs@ == parse_lines(text_lines(bytes@).take(__vx_it1.k@)));
//@      hint? 1 continue;
//@        assert(text_lines(bytes@).take(__vx_it1.k@).drop_last() =~= text_lines(bytes@).take(__vx_it1.k@ - 1));
//@        assert(text_lines(bytes@).take(__vx_it1.k@).last() == line@);
//@        assert(parse_line(line@) == Some((name, oid)));
//@        assert(refs@ == parse_lines(text_lines(bytes@).take(__vx_it1.k@)));
//@      hint 1 Ok\(Self\(refs\)\)
//@        assert(text_lines(bytes@).take(__vx_it1.k@) =~= text_lines(bytes@));
//@    fn canonical
//@      ret r
//@      attr #[verifier::exec_allows_no_decreases_clause]
//@      desugar_for
//@      nloops 1
//@      loop 1
//@        invariant
//@          0 <= __vx_it1.k@ <= order(self.0@).len() && __vx_it1.m == &self.0
//@          buf@ == canon_text(order(self.0@).take(__vx_it1.k@))
//@        ensures
//@          __vx_it1.k@ == order(self.0@).len()
//@      ensures
//@        # C20: the canonical text is exactly one `<hex oid> <name>\n` line per ref, every ref included
//@        r@ == utf8(canon_text(order(self.0@))) //[C20]
//@      # (at the end of the loop body)
//@      hint 1 \}\s*buf\.into_bytes\(\)
//@        assert(order(self.0@).take(__vx_it1.k@).drop_last() =~= order(self.0@).take(__vx_it1.k@ - 1));
//@      hint 1 buf\.into_bytes\(\)
//@        assert(order(self.0@).take(__vx_it1.k@) =~= order(self.0@));
//@end

//@canary
} // verus!
fn main() {}
