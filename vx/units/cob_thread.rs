// Unit `cob_thread` (C07): the author of a comment -- the key every comment rule of Issue::authorization and
// Patch::authorization compares the actor with -- is the key that created the comment, whoever edits it later.
// Real code: Edit::new, Comment::{new, author, edit} (crates/radicle/src/cob/thread.rs).
use vstd::prelude::*;
use std::collections::BTreeSet;
//@include _prelude.rs

verus! {
//@include _panic.rs

// ---- environment (declarations only) ------------------------------------------------------------------
#[derive(Clone, Copy, PartialEq, Eq, PartialOrd, Ord, Debug)] pub struct ActorId(pub [u8; 32]);
#[derive(Clone, Copy, PartialEq, Eq, PartialOrd, Ord, Debug)] pub struct EntryId(pub [u8; 20]);
#[derive(Clone, Copy, PartialEq, Eq, PartialOrd, Ord, Debug)] pub struct Timestamp(pub u64);
#[derive(Clone, Copy, PartialEq, Eq, PartialOrd, Ord, Debug)] pub struct Reaction(pub char);
#[derive(Clone, PartialEq, Eq, PartialOrd, Ord, Debug)] pub struct Uri { pub opaque: u64 }
#[derive(Clone, PartialEq, Eq, PartialOrd, Ord, Debug)] pub struct Embed<T> { pub content: T }
pub struct Never { pub opaque: u8 } // (uninhabited in the repo; only the default of a type parameter here)
//@extract crates/radicle/src/cob/thread.rs
//@  item type CommentId
//@  item type Reactions
//@  item struct Edit
//@    derive Debug, Clone
//@  impl Edit
//@    fn new
//@      ret r
//@      ensures
//@        r.author == author
//@  item struct Comment
//@    derive Debug, Clone
//@  impl <L> Comment<L>
//@    add
//@      /// every comment has at least its original edit, made by its author
//@      pub open spec fn wf(self) -> bool { self.edits@.len() > 0 && self.edits@[0].author == self.author }
//@    fn new
//@      ret r
//@      ensures
//@        # C07: the comment's author is the key that created it
//@        r.author == author && r.wf() //[C07]
//@    fn author
//@      ret r
//@      requires
//@        self.wf()
//@      ensures
//@        r == self.author //[C07]
//@    fn edit
//@      requires
//@        old(self).wf()
//@      ensures
//@        # C07: an edit -- by anyone who is allowed to make it, e.g. a delegate -- never changes whose comment it is
//@        final(self).author == old(self).author && final(self).wf() //[C07]
//@        final(self).edits@.len() == old(self).edits@.len() + 1
//@end

//@canary
} // verus!
fn main() {}
