// Unit `service_time` (C29): Service::timestamp and the real Timestamp arithmetic.
use vstd::prelude::*;
use std::ops::{Add, Deref, Sub};
//@include _prelude.rs

verus! {
//@include _panic.rs

// ---- environment (declarations only) ------------------------------------------------
/// stand-in for `localtime::LocalTime` (external crate): a millisecond counter.
#[derive(Clone, Copy)]
pub struct LocalTime { pub ms: u64 }
impl LocalTime {
    /// ASSUMED (localtime crate): `as_millis` returns the stored millisecond count.
    #[verifier::external_body]
    pub fn as_millis(&self) -> (r: u64) ensures r == self.ms { unimplemented!() }
}
pub struct Config;
pub struct Device<G>(G);
pub struct Stores<D>(D);
pub trait Store {}
pub trait ReadStorage {}
pub mod crypto {
    pub struct Signature;
    pub mod signature { pub trait Signer<T> {} }
}

//@extract crates/radicle/src/node/timestamp.rs
//@  item struct Timestamp
//@    derive Copy, Clone, Debug, PartialEq, Eq
//@  impl Add<u64> for Timestamp
//@    fn add
//@      ret r
//@      ensures
//@        r.ms() == (if self.ms() + millis > u64::MAX { u64::MAX as int } else { self.ms() + millis })
//@  impl Sub<u64> for Timestamp
//@    fn sub
//@      ret r
//@      ensures
//@        r.ms() == (if self.ms() < millis { 0int } else { self.ms() - millis })
//@  impl Deref for Timestamp
//@    fn deref
//@      ret r
//@      ensures
//@        *r == self.ms()
//@  impl From<LocalTime> for Timestamp
//@    fn from
//@      ret r
//@      ensures
//@        r.ms() == t.ms
//@end

impl Timestamp { pub closed spec fn ms(self) -> u64 { self.0 } }

// Ghost glue required by vstd for user impls of std operator/conversion traits: the spec-level
// meaning of `+`, `-`, `from` on Timestamp (written from the doc comments: saturating milliseconds).
impl vstd::std_specs::ops::AddSpecImpl<u64> for Timestamp {
    open spec fn obeys_add_spec() -> bool { true }
    open spec fn add_req(self, rhs: u64) -> bool { true }
    closed spec fn add_spec(self, rhs: u64) -> Timestamp { Timestamp(if self.0 + rhs > u64::MAX { u64::MAX } else { (self.0 + rhs) as u64 }) }
}
impl vstd::std_specs::ops::SubSpecImpl<u64> for Timestamp {
    open spec fn obeys_sub_spec() -> bool { true }
    open spec fn sub_req(self, rhs: u64) -> bool { true }
    closed spec fn sub_spec(self, rhs: u64) -> Timestamp { Timestamp(if self.0 < rhs { 0u64 } else { (self.0 - rhs) as u64 }) }
}
impl vstd::std_specs::convert::FromSpecImpl<LocalTime> for Timestamp {
    open spec fn obeys_from_spec() -> bool { true }
    closed spec fn from_spec(t: LocalTime) -> Timestamp { Timestamp(t.ms) }
}

//@extract crates/radicle-node/src/service.rs
//@  item struct Service
//@    derive
//@    fields config, signer, storage, db, clock, last_timestamp
//@  impl <D, S, G> Service<D, S, G> where D: Store, S: ReadStorage + 'static, G: crypto::signature::Signer<crypto::Signature>,
//@    fn timestamp
//@      ret r
//@      requires
//@        old(self).last_timestamp.ms() < u64::MAX
//@      ensures
//@        r == final(self).last_timestamp
//@        r.ms() > old(self).last_timestamp.ms()
//@        r.ms() >= old(self).clock.ms
//@        final(self).clock == old(self).clock
//@end

// ---- history lemma ---------------------------------------------------------------------
// A run is any sequence of steps; each step first lets the clock take an arbitrary value
// (forward, equal or backward) and then calls timestamp(). `step_ok` is exactly the
// postcondition above; the lemma shows the signed timestamps are strictly increasing.
pub struct Step { pub before: u64, pub clock: u64, pub returned: u64 }

pub open spec fn step_ok(s: Step) -> bool { s.returned > s.before && s.returned >= s.clock }

pub open spec fn run_ok(h: Seq<Step>) -> bool {
    &&& forall|i: int| 0 <= i < h.len() ==> step_ok(#[trigger] h[i])
    &&& forall|i: int| 0 <= i < h.len() - 1 ==> (#[trigger] h[i + 1]).before == h[i].returned
}

pub proof fn lemma_strictly_increasing(h: Seq<Step>, i: int, j: int)
    requires run_ok(h), 0 <= i < j < h.len()
    ensures h[i].returned < h[j].returned
    decreases j - i
{
    if j == i + 1 {
        assert(h[i + 1].before == h[i].returned);
    } else {
        lemma_strictly_increasing(h, i, j - 1);
        assert(h[(j - 1) + 1].before == h[j - 1].returned);
    }
}

//@canary
} // verus!
fn main() {}
