// Unit `service_time` (C29): Service::timestamp and the real Timestamp arithmetic.
use vstd::prelude::*;
use std::ops::{Add, Deref, Sub};
use std::collections::HashSet;
//@include _prelude.rs

verus! {
//@include _panic.rs

// ---- environment (declarations only) ------------------------------------------------
/// stand-in for `localtime::LocalTime` (external crate): a millisecond counter.
#[derive(Clone, Copy)]
pub struct LocalTime { pub ms: u64 }
impl LocalTime {
    /// ASSUMED (localtime crate): `as_millis` returns the stored millisecond count.
    #[verifier::external_body]
    pub fn as_millis(&self) -> (r: u64) ensures r == self.ms { unimplemented!() }
}
pub struct Config;
pub struct Device<G>(G);
pub trait Store {}
#[derive(Clone, Copy, PartialEq, Eq, Debug)] pub struct NodeId(pub [u8; 32]);
#[derive(Clone, Copy, PartialEq, Eq, Debug)] pub struct RepoId(pub [u8; 20]);
pub struct Error;
pub mod routing {
    pub struct Error; pub struct Store; pub enum InsertResult { SeedAdded, TimeUpdated, NotUpdated }
    impl Store {
        #[verifier::external_body] pub fn add_inventory(&mut self, rids: [&crate::RepoId; 1], nid: crate::NodeId, t: crate::Timestamp) -> Result<Vec<(crate::RepoId, InsertResult)>, Error> { unimplemented!() }
        #[verifier::external_body] pub fn remove_inventory(&mut self, rid: &crate::RepoId, nid: &crate::NodeId) -> Result<bool, Error> { unimplemented!() }
        #[verifier::external_body] pub fn get_inventory(&self, nid: &crate::NodeId) -> Result<std::collections::HashSet<crate::RepoId>, Error> { unimplemented!() }
    }
}
impl From<routing::Error> for Error { #[verifier::external_body] fn from(e: routing::Error) -> Self { unimplemented!() } }
pub struct StorageError;
impl From<StorageError> for Error { #[verifier::external_body] fn from(e: StorageError) -> Self { unimplemented!() } }
pub struct Stores<D>(D);
impl<D> Stores<D> {
    #[verifier::external_body] pub fn routing_mut(&mut self) -> &mut routing::Store { unimplemented!() }
    #[verifier::external_body] pub fn routing(&self) -> &routing::Store { unimplemented!() }
}
pub struct Repo;
pub struct RefsAtError; impl From<RefsAtError> for Error { #[verifier::external_body] fn from(e: RefsAtError) -> Self { unimplemented!() } }
#[derive(Clone, Copy)] pub struct RefsAt { pub remote: NodeId }
impl RefsAt { #[verifier::external_body] pub fn new(repo: &Repo, remote: NodeId) -> Result<RefsAt, RefsAtError> { unimplemented!() } }
pub const REF_REMOTE_LIMIT: usize = 1024;
/// stand-in for radicle_node::bounded::BoundedVec (under contract in unit wire_codec)
pub struct BoundedVec<T, const N: usize> { pub v: Vec<T> }
impl<T, const N: usize> BoundedVec<T, N> {
    #[verifier::external_body] pub fn new() -> Self { unimplemented!() }
    #[verifier::external_body] pub fn push(&mut self, x: T) -> Result<(), ()> { unimplemented!() }
}
impl<T: Clone, const N: usize> Clone for BoundedVec<T, N> { #[verifier::external_body] fn clone(&self) -> Self { unimplemented!() } }
impl<T, const N: usize> From<BoundedVec<T, N>> for Vec<T> { #[verifier::external_body] fn from(b: BoundedVec<T, N>) -> Self { unimplemented!() } }
pub struct RefsAnnouncement { pub rid: RepoId, pub refs: BoundedVec<RefsAt, REF_REMOTE_LIMIT>, pub timestamp: Timestamp }
pub enum AnnouncementMessage { Refs(RefsAnnouncement), Other(Timestamp) }
impl From<RefsAnnouncement> for AnnouncementMessage { fn from(r: RefsAnnouncement) -> (m: AnnouncementMessage) ensures m == AnnouncementMessage::Refs(r) { AnnouncementMessage::Refs(r) } }
impl vstd::std_specs::convert::FromSpecImpl<RefsAnnouncement> for AnnouncementMessage { open spec fn obeys_from_spec() -> bool { true } open spec fn from_spec(r: RefsAnnouncement) -> AnnouncementMessage { AnnouncementMessage::Refs(r) } }
pub struct Announcement;
impl AnnouncementMessage {
    pub open spec fn ts(self) -> Timestamp { match self { AnnouncementMessage::Refs(r) => r.timestamp, AnnouncementMessage::Other(t) => t } }
    /// SINK (C29): signs the message. `last` is the timestamp Service::timestamp issued last (ghost argument added at the call site).
    #[verifier::external_body]
    pub fn vx_signed<G>(self, signer: &Device<G>, Ghost(last): Ghost<Timestamp>) -> Announcement
        requires self.ts() == last   //[C29]
    { unimplemented!() }
}
pub struct VxIds { pub opaque: u8 }
impl VxIds { #[verifier::external_body] pub fn next(&mut self) -> Option<NodeId> { unimplemented!() } }
/// stand-in for `remotes.into_iter()`
#[verifier::external_body] pub fn vx_ids(v: Vec<NodeId>) -> VxIds { unimplemented!() }
pub trait ReadStorage { fn contains(&self, rid: &RepoId) -> Result<bool, StorageError>; fn repository(&self, rid: RepoId) -> Result<Repo, StorageError>; }
pub struct InventoryAnnouncement { pub timestamp: Timestamp }
pub mod gossip {
    use vstd::prelude::*;
    /// builds the inventory message that `announce_inventory` signs: carries the given timestamp
    #[verifier::external_body]
    pub fn inventory(timestamp: crate::Timestamp, inv: std::collections::HashSet<crate::RepoId>) -> (r: crate::InventoryAnnouncement) ensures r.timestamp == timestamp { unimplemented!() }
}
pub mod crypto {
    pub struct Signature;
    pub mod signature { pub trait Signer<T> {} }
}

//@extract crates/radicle/src/node/timestamp.rs
//@  item struct Timestamp
//@    derive Copy, Clone, Debug, PartialEq, Eq
//@  impl Add<u64> for Timestamp
//@    fn add
//@      ret r
//@      ensures
//@        r.ms() == (if self.ms() + millis > u64::MAX { u64::MAX as int } else { self.ms() + millis })
//@  impl Sub<u64> for Timestamp
//@    fn sub
//@      ret r
//@      ensures
//@        r.ms() == (if self.ms() < millis { 0int } else { self.ms() - millis })
//@  impl Deref for Timestamp
//@    fn deref
//@      ret r
//@      ensures
//@        *r == self.ms()
//@  impl From<LocalTime> for Timestamp
//@    fn from
//@      ret r
//@      ensures
//@        r.ms() == t.ms
//@end

impl Timestamp { pub closed spec fn ms(self) -> u64 { self.0 } }

// Ghost glue required by vstd for user impls of std operator/conversion traits: the spec-level
// meaning of `+`, `-`, `from` on Timestamp (written from the doc comments: saturating milliseconds).
impl vstd::std_specs::ops::AddSpecImpl<u64> for Timestamp {
    open spec fn obeys_add_spec() -> bool { true }
    open spec fn add_req(self, rhs: u64) -> bool { true }
    closed spec fn add_spec(self, rhs: u64) -> Timestamp { Timestamp(if self.0 + rhs > u64::MAX { u64::MAX } else { (self.0 + rhs) as u64 }) }
}
impl vstd::std_specs::ops::SubSpecImpl<u64> for Timestamp {
    open spec fn obeys_sub_spec() -> bool { true }
    open spec fn sub_req(self, rhs: u64) -> bool { true }
    closed spec fn sub_spec(self, rhs: u64) -> Timestamp { Timestamp(if self.0 < rhs { 0u64 } else { (self.0 - rhs) as u64 }) }
}
impl vstd::std_specs::convert::FromSpecImpl<LocalTime> for Timestamp {
    open spec fn obeys_from_spec() -> bool { true }
    closed spec fn from_spec(t: LocalTime) -> Timestamp { Timestamp(t.ms) }
}

//@extract crates/radicle-node/src/service.rs
//@  item struct Service
//@    derive
//@    fields config, signer, storage, db, clock, last_timestamp, inventory
//@  impl <D, S, G> Service<D, S, G> where D: Store, S: ReadStorage + 'static, G: crypto::signature::Signer<crypto::Signature>,
//@    fn timestamp
//@      ret r
//@      requires
//@        old(self).last_timestamp.ms() < u64::MAX
//@      ensures
//@        r == final(self).last_timestamp
//@        r.ms() > old(self).last_timestamp.ms()
//@        r.ms() >= old(self).clock.ms
//@        final(self).clock == old(self).clock
//@    add
//@      #[verifier::external_body] pub fn node_id(&self) -> NodeId { unimplemented!() }
//@      #[verifier::external_body] pub fn nid(&self) -> &NodeId { unimplemented!() }
//@      /// signs and sends the cached inventory message (`self.inventory`); at most once per timestamp (it compares with
//@      /// `last_inventory`): does not issue timestamps
//@      #[verifier::external_body]
//@      fn announce_inventory(&mut self) ensures final(self).last_timestamp == old(self).last_timestamp { unimplemented!() }
//@    fn inventory
//@      desugar_try
//@      body_sub (?s)self\.db\s*\.routing\(\)\s*\.get_inventory\(self\.nid\(\)\)\s*\.map_err\(Error::from\) => self.db.routing().get_inventory(self.nid()).map_err(|e| -> (o: Error) { Error::from(e) })
//@    fn refs_announcement_for
//@      attr #[verifier::exec_allows_no_decreases_clause]
//@      attr #[verifier::loop_isolation(false)]
//@      desugar_try
//@      desugar_for
//@      sig remotes: impl IntoIterator<Item = NodeId>, => remotes: Vec<NodeId>,
//@      body_sub remotes\.into_iter\(\) => vx_ids(remotes)
//@      # the ghost argument names the timestamp issued last; the sink requires the message to carry exactly it
//@      body_sub msg\.signed\(&self\.signer\) => msg.vx_signed(&self.signer, Ghost(self.last_timestamp))
//@      requires
//@        old(self).last_timestamp.ms() < u64::MAX
//@    fn refresh_and_announce_inventory
//@      desugar_try
//@      requires
//@        # C29: the inventory message about to be signed carries the timestamp that was issued last (by Service::timestamp)
//@        time == old(self).last_timestamp //[C29]
//@    fn add_inventory
//@      desugar_try
//@      requires
//@        old(self).last_timestamp.ms() < u64::MAX
//@    fn remove_inventory
//@      desugar_try
//@      requires
//@        old(self).last_timestamp.ms() < u64::MAX
//@end

// ---- history lemma ---------------------------------------------------------------------
// A run is any sequence of steps; each step first lets the clock take an arbitrary value
// (forward, equal or backward) and then calls timestamp(). `step_ok` is exactly the
// postcondition above; the lemma shows the signed timestamps are strictly increasing.
pub struct Step { pub before: u64, pub clock: u64, pub returned: u64 }

pub open spec fn step_ok(s: Step) -> bool { s.returned > s.before && s.returned >= s.clock }

pub open spec fn run_ok(h: Seq<Step>) -> bool {
    &&& forall|i: int| 0 <= i < h.len() ==> step_ok(#[trigger] h[i])
    &&& forall|i: int| 0 <= i < h.len() - 1 ==> (#[trigger] h[i + 1]).before == h[i].returned
}

pub proof fn lemma_strictly_increasing(h: Seq<Step>, i: int, j: int)
    requires run_ok(h), 0 <= i < j < h.len()
    ensures h[i].returned < h[j].returned
    decreases j - i
{
    if j == i + 1 {
        assert(h[i + 1].before == h[i].returned);
    } else {
        lemma_strictly_increasing(h, i, j - 1);
        assert(h[(j - 1) + 1].before == h[j - 1].returned);
    }
}

//@canary
} // verus!
fn main() {}
