// Unit `dag_remove` (C06): pruning a change from the history graph drops every change that depends on it.
// Real code: Dag::remove (crates/radicle-dag/src/lib.rs) -- the operation Dag::prune_by applies to a rejected change.
use vstd::prelude::*;
use std::collections::{BTreeMap, BTreeSet};
//@include _prelude.rs

verus! {
//@include _panic.rs

/// the order in which a BTreeSet with these contents is iterated: ASSUMED to be a function of the contents
pub uninterp spec fn set_order<K>(s: Set<K>) -> Seq<K>;
/// ASSUMED (BTreeSet::iter): every element once
#[verifier::external_body]
pub proof fn set_order_props<K>(s: Set<K>)
    ensures
        forall|i: int| 0 <= i < set_order(s).len() ==> s.contains(#[trigger] set_order(s)[i]),
        forall|k: K| s.contains(k) ==> exists|i: int| 0 <= i < set_order(s).len() && #[trigger] set_order(s)[i] == k,
{}
/// stand-in for `for k in &set` (BTreeSet::iter; its vstd contract does not relate the items to the set's view)
pub struct SetIter<'a, K> { pub set: &'a BTreeSet<K>, pub k: Ghost<int> }
impl<'a, K> SetIter<'a, K> {
    #[verifier::external_body]
    pub fn next(&mut self) -> (r: Option<&'a K>)
        ensures final(self).set == old(self).set,
            old(self).k@ < set_order(old(self).set@).len() ==> r is Some && final(self).k@ == old(self).k@ + 1 && *r->Some_0 == set_order(old(self).set@)[old(self).k@],
            old(self).k@ >= set_order(old(self).set@).len() ==> r is None && final(self).k@ == old(self).k@,
    { unimplemented!() }
}
pub fn vx_set_iter<'a, K>(set: &'a BTreeSet<K>) -> (r: SetIter<'a, K>) ensures r.set == set, r.k@ == 0 { SetIter { set, k: Ghost(0) } }

//@extract crates/radicle-dag/src/lib.rs
//@  item struct Node
//@    derive
//@  item struct Dag
//@    derive
//@  impl <K: Ord + Copy, V> Dag<K, V>
//@    drop new, root, is_empty, len, node, dependency, contains, get, has_dependency, roots, tips, merge, sorted, sorted_by, prune, prune_by, fold, descendants_of, siblings_of, ancestors_of, visit, visit_by
//@    fn remove
//@      ret r
//@      attr #[verifier::exec_allows_no_decreases_clause]
//@      desugar_for
//@      body_sub __vx_it1 = &node\.dependencies; => __vx_it1 = vx_set_iter(&node.dependencies);
//@      body_sub __vx_it2 = &node\.dependents; => __vx_it2 = vx_set_iter(&node.dependents);
//@      requires
//@        # (hypothesis on the key type: a lawful total order, as BTreeMap needs)
//@        vstd::laws_cmp::obeys_cmp_spec::<K>()
//@      ensures
//@        (r is Some) == old(self).graph@.contains_key(*key)
//@        !final(self).graph@.contains_key(*key)
//@        final(self).graph@.dom().subset_of(old(self).graph@.dom())
//@        # C06: every change that directly depends on the removed one is gone as well -- and, by this same contract one
//@        # level down, so is everything that depends on those
//@        r is Some ==> forall|d: K| #[trigger] r->Some_0.dependents@.contains(d) ==> !final(self).graph@.contains_key(d) //[C06]
//@      decreases old(self).graph@.dom().len()
//@      hint 1 Some\(node\)\s*\} else
//@        set_order_props::<K>(node.dependents@);
//@      nloops 2
//@      loop 1
//@        invariant
//@          vstd::laws_cmp::obeys_cmp_spec::<K>()
//@          self.graph@.dom() =~= old(self).graph@.dom().remove(*key)
//@      loop 2
//@        invariant
//@          vstd::laws_cmp::obeys_cmp_spec::<K>()
//@          old(self).graph@.contains_key(*key)
//@          self.graph@.dom().subset_of(old(self).graph@.dom().remove(*key))
//@          __vx_it2.set == &node.dependents && 0 <= __vx_it2.k@ <= set_order(node.dependents@).len()
//@          forall|i: int| 0 <= i < __vx_it2.k@ ==> !self.graph@.contains_key(#[trigger] set_order(node.dependents@)[i])
//@        ensures
//@          __vx_it2.k@ == set_order(node.dependents@).len()
//@end

//@canary
} // verus!
fn main() {}
