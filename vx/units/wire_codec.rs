// Unit `wire_codec` (C15): the gossip message codec of radicle-node, both directions, against one ghost function
// per type: `enc(v)` -- the bytes of `v` on the wire.
//   Encode::encode   writes exactly enc(self) and returns its length                       (E)
//   Decode::decode   Ok(v) only by consuming exactly the bytes wire(v)  [== enc(v)]        (D: unique encoding)
// (D) is the half of C15 the round-trip tests cannot reach: it starts from arbitrary bytes that decode.
// Real code: Encode/Decode impls of crates/radicle-node/src/wire.rs, wire/message.rs; serialize / deserialize.
#![feature(allocator_api)]
use vstd::prelude::*;
use std::marker::PhantomData;
use std::ops::Deref;
//@include _prelude.rs
//@rlimit 150

verus! {
//@include _panic.rs
//@include _io.rs
//@include _iow.rs

// ---- environment ----------------------------------------------------------------------------------------------
pub mod io { pub use std::io::{Read, Write, Error, ErrorKind, Result}; pub use crate::Cursor; }
pub mod mem {
    use vstd::prelude::*;
    /// stand-in for core::mem::size_of (ASSUMED: size of uN is N/8, size of [u8; N] is N)
    pub trait VxSized { spec fn sz() -> usize; }
    impl VxSized for u8 { open spec fn sz() -> usize { 1 } }
    impl VxSized for u16 { open spec fn sz() -> usize { 2 } }
    impl VxSized for u32 { open spec fn sz() -> usize { 4 } }
    impl VxSized for u64 { open spec fn sz() -> usize { 8 } }
    impl<const N: usize> VxSized for [u8; N] { open spec fn sz() -> usize { N } }
    #[verifier::external_body]
    pub fn size_of<T: VxSized>() -> (r: usize) ensures r == T::sz() { core::mem::size_of::<T>() }
}
pub struct NetworkEndian;
/// stand-in for io::Error::new(kind, msg) (generic over Into<Box<dyn Error>>, outside Verus)
#[verifier::external_body] pub fn vx_io_error_new(k: std::io::ErrorKind) -> (e: std::io::Error) ensures io_kind(e) == k { unimplemented!() }
/// big-endian byte strings of the fixed-width integers (from the statement's wire format: network byte order)
pub mod be {
    use vstd::prelude::*;
    pub open spec fn be_u8(x: u8) -> Seq<u8> { seq![x] }
    // opaque: the codec proofs only ever need these as atoms plus their lengths (division/modulo terms made the
    // decoders' queries an order of magnitude slower)
    #[verifier::opaque] pub open spec fn be_u16(x: u16) -> Seq<u8> { seq![(x / 256) as u8, (x % 256) as u8] }
    #[verifier::opaque] pub open spec fn be_u32(x: u32) -> Seq<u8> { seq![(x / 16777216) as u8, (x / 65536 % 256) as u8, (x / 256 % 256) as u8, (x % 256) as u8] }
    #[verifier::opaque] pub open spec fn be_u64(x: u64) -> Seq<u8> { be_u32((x / 4294967296) as u32) + be_u32((x % 4294967296) as u32) }
    /// their lengths, broadcast
    pub broadcast proof fn lemma_be_len16(x: u16) ensures #[trigger] be_u16(x).len() == 2 { reveal(be_u16); }
    pub broadcast proof fn lemma_be_len32(x: u32) ensures #[trigger] be_u32(x).len() == 4 { reveal(be_u32); }
    pub broadcast proof fn lemma_be_len64(x: u64) ensures #[trigger] be_u64(x).len() == 8 { reveal(be_u64); lemma_be_len32((x / 4294967296) as u32); lemma_be_len32((x % 4294967296) as u32); }
}
pub use be::*;
broadcast use be::lemma_be_len16, be::lemma_be_len32, be::lemma_be_len64;
/// stand-in for the `byteorder` crate (external): big-endian reads/writes over the stream models.
pub trait ReadBytesExt: std::io::Read {
    /// ASSUMED (byteorder): read_uN::<NetworkEndian> consumes N/8 bytes which are the big-endian bytes of the result
    fn read_u8(&mut self) -> (r: Result<u8, std::io::Error>)
        ensures r is Ok ==> (*old(self)).rem() =~= be_u8(r->Ok_0) + (*final(self)).rem(), r is Err ==> is_eof_kind(r->Err_0);
    fn read_u16<B>(&mut self) -> (r: Result<u16, std::io::Error>)
        ensures r is Ok ==> (*old(self)).rem() =~= be_u16(r->Ok_0) + (*final(self)).rem(), r is Err ==> is_eof_kind(r->Err_0);
    fn read_u32<B>(&mut self) -> (r: Result<u32, std::io::Error>)
        ensures r is Ok ==> (*old(self)).rem() =~= be_u32(r->Ok_0) + (*final(self)).rem(), r is Err ==> is_eof_kind(r->Err_0);
    fn read_u64<B>(&mut self) -> (r: Result<u64, std::io::Error>)
        ensures r is Ok ==> (*old(self)).rem() =~= be_u64(r->Ok_0) + (*final(self)).rem(), r is Err ==> is_eof_kind(r->Err_0);
}
impl<R: std::io::Read + ?Sized> ReadBytesExt for R {
    #[verifier::external_body] fn read_u8(&mut self) -> (r: Result<u8, std::io::Error>) { unimplemented!() }
    #[verifier::external_body] fn read_u16<B>(&mut self) -> (r: Result<u16, std::io::Error>) { unimplemented!() }
    #[verifier::external_body] fn read_u32<B>(&mut self) -> (r: Result<u32, std::io::Error>) { unimplemented!() }
    #[verifier::external_body] fn read_u64<B>(&mut self) -> (r: Result<u64, std::io::Error>) { unimplemented!() }
}
pub trait WriteBytesExt: std::io::Write {
    /// ASSUMED (byteorder): write_uN::<NetworkEndian> appends the big-endian bytes
    fn write_u8(&mut self, x: u8) -> (r: Result<(), std::io::Error>)
        ensures r is Ok ==> (*final(self)).written() =~= (*old(self)).written() + be_u8(x) && (*final(self)).written().len() <= usize::MAX;
    fn write_u16<B>(&mut self, x: u16) -> (r: Result<(), std::io::Error>)
        ensures r is Ok ==> (*final(self)).written() =~= (*old(self)).written() + be_u16(x) && (*final(self)).written().len() <= usize::MAX;
    fn write_u32<B>(&mut self, x: u32) -> (r: Result<(), std::io::Error>)
        ensures r is Ok ==> (*final(self)).written() =~= (*old(self)).written() + be_u32(x) && (*final(self)).written().len() <= usize::MAX;
    fn write_u64<B>(&mut self, x: u64) -> (r: Result<(), std::io::Error>)
        ensures r is Ok ==> (*final(self)).written() =~= (*old(self)).written() + be_u64(x) && (*final(self)).written().len() <= usize::MAX;
}
impl<W: std::io::Write + ?Sized> WriteBytesExt for W {
    #[verifier::external_body] fn write_u8(&mut self, x: u8) -> (r: Result<(), std::io::Error>) { unimplemented!() }
    #[verifier::external_body] fn write_u16<B>(&mut self, x: u16) -> (r: Result<(), std::io::Error>) { unimplemented!() }
    #[verifier::external_body] fn write_u32<B>(&mut self, x: u32) -> (r: Result<(), std::io::Error>) { unimplemented!() }
    #[verifier::external_body] fn write_u64<B>(&mut self, x: u64) -> (r: Result<(), std::io::Error>) { unimplemented!() }
}

// ---- fixed-size identifiers (external crates: radicle-crypto, git2) ------------------------------------------------
#[derive(Clone, Copy, PartialEq, Eq, Debug)] pub struct PublicKey(pub [u8; 32]);
impl Deref for PublicKey { type Target = [u8; 32]; fn deref(&self) -> (r: &[u8; 32]) ensures *r == self.0 { &self.0 } }
impl From<[u8; 32]> for PublicKey { fn from(b: [u8; 32]) -> (r: PublicKey) ensures r == PublicKey(b) { PublicKey(b) } }
impl vstd::std_specs::convert::FromSpecImpl<[u8; 32]> for PublicKey { open spec fn obeys_from_spec() -> bool { true } open spec fn from_spec(b: [u8; 32]) -> PublicKey { PublicKey(b) } }
pub type NodeId = PublicKey;
#[derive(Clone, Copy, PartialEq, Eq, Debug)] pub struct Signature(pub [u8; 64]);
impl Deref for Signature { type Target = [u8; 64]; fn deref(&self) -> (r: &[u8; 64]) ensures *r == self.0 { &self.0 } }
impl From<[u8; 64]> for Signature { fn from(b: [u8; 64]) -> (r: Signature) ensures r == Signature(b) { Signature(b) } }
impl vstd::std_specs::convert::FromSpecImpl<[u8; 64]> for Signature { open spec fn obeys_from_spec() -> bool { true } open spec fn from_spec(b: [u8; 64]) -> Signature { Signature(b) } }
pub mod git {
    use vstd::prelude::*;
    pub mod raw {
        use vstd::prelude::*;
        #[derive(Clone, Copy, PartialEq, Eq, Debug)] pub struct Oid(pub [u8; 20]);
        #[derive(Debug)] pub struct Error;
        impl Oid {
            /// ASSUMED (git2): from_bytes succeeds exactly on 20 bytes and keeps them
            #[verifier::external_body]
            pub fn from_bytes(b: &[u8]) -> (r: Result<Oid, Error>) ensures (r is Ok) == (b@.len() == 20), r is Ok ==> r->Ok_0.0@ == b@ { unimplemented!() }
        }
    }
    #[derive(Clone, Copy, PartialEq, Eq, Debug)] pub struct Oid(pub raw::Oid);
    impl Oid {
        /// ASSUMED (git2): as_bytes is the 20 raw bytes
        #[verifier::external_body]
        pub fn as_bytes(&self) -> (r: &[u8]) ensures r@ == self.0.0@ { unimplemented!() }
    }
    impl From<raw::Oid> for Oid { fn from(o: raw::Oid) -> (r: Oid) ensures r == Oid(o) { Oid(o) } }
    impl vstd::std_specs::convert::FromSpecImpl<raw::Oid> for Oid { open spec fn obeys_from_spec() -> bool { true } open spec fn from_spec(o: raw::Oid) -> Oid { Oid(o) } }
}
#[derive(Clone, Copy, PartialEq, Eq, Debug)] pub struct RepoId(pub git::Oid);
impl Deref for RepoId { type Target = git::Oid; fn deref(&self) -> (r: &git::Oid) ensures *r == self.0 { &self.0 } }
impl From<git::Oid> for RepoId { fn from(o: git::Oid) -> (r: RepoId) ensures r == RepoId(o) { RepoId(o) } }
impl vstd::std_specs::convert::FromSpecImpl<git::Oid> for RepoId { open spec fn obeys_from_spec() -> bool { true } open spec fn from_spec(o: git::Oid) -> RepoId { RepoId(o) } }
#[derive(Clone, Copy, PartialEq, Eq, Debug)] pub struct Timestamp(pub u64);
impl Deref for Timestamp { type Target = u64; fn deref(&self) -> (r: &u64) ensures *r == self.0 { &self.0 } }
impl Timestamp { /// radicle::node::timestamp (not extracted)
    pub const MAX: Timestamp = Timestamp(9223372036854775807); }
impl TryFrom<u64> for Timestamp {
    type Error = u64;
    /// radicle::node::timestamp (not extracted): Ok exactly for values <= i64::MAX
    fn try_from(u: u64) -> (r: Result<Timestamp, u64>) ensures (r is Ok) == (u <= 9223372036854775807), r is Ok ==> r->Ok_0 == Timestamp(u), r is Err ==> r->Err_0 == u
    { if u <= 9223372036854775807 { Ok(Timestamp(u)) } else { Err(u) } }
}
impl vstd::std_specs::convert::TryFromSpecImpl<u64> for Timestamp {
    open spec fn obeys_try_from_spec() -> bool { true }
    open spec fn try_from_spec(u: u64) -> Result<Timestamp, u64> { if u <= 9223372036854775807 { Ok(Timestamp(u)) } else { Err(u) } }
}
#[derive(Clone, Copy, PartialEq, Eq, Debug)] pub struct RefsAt { pub remote: PublicKey, pub at: git::Oid }

/// stand-in for `slice.iter()` (std's slice::Iter): position + the slice
pub struct VxSliceIter<'a, T> { pub s: &'a [T], pub pos: usize }
impl<'a, T> VxSliceIter<'a, T> {
    pub fn next(&mut self) -> (r: Option<&'a T>)
        requires old(self).pos <= old(self).s@.len()
        ensures final(self).s == old(self).s,
            old(self).pos < old(self).s@.len() ==> r == Some(&old(self).s@[old(self).pos as int]) && final(self).pos == old(self).pos + 1,
            old(self).pos >= old(self).s@.len() ==> r is None && final(self).pos == old(self).pos,
    { if self.pos < self.s.len() { let x = &self.s[self.pos]; self.pos = self.pos + 1; Some(x) } else { None } }
}
pub fn vx_iter<'a, T>(s: &'a [T]) -> (r: VxSliceIter<'a, T>) ensures r.s == s, r.pos == 0 { VxSliceIter { s, pos: 0 } }

/// concatenated encodings of a sequence of items (from the statement: length prefix, then the items in order)
pub open spec fn flat_enc<T: Encode>(s: Seq<T>) -> Seq<u8> decreases s.len() { if s.len() == 0 { Seq::empty() } else { flat_enc(s.drop_last()) + s.last().enc() } }
pub open spec fn flat_wire<T: Decode>(s: Seq<T>) -> Seq<u8> decreases s.len() { if s.len() == 0 { Seq::empty() } else { flat_wire(s.drop_last()) + T::wire(s.last()) } }
pub mod vx_lem {
    use vstd::prelude::*;
    use crate::*;
    pub broadcast proof fn lemma_flat_enc_push<T: Encode>(s: Seq<T>, x: T)
        ensures #[trigger] flat_enc(s.push(x)) == flat_enc(s) + x.enc()
    { assert(s.push(x).drop_last() =~= s); }
    pub broadcast proof fn lemma_flat_wire_push<T: Decode>(s: Seq<T>, x: T)
        ensures #[trigger] flat_wire(s.push(x)) == flat_wire(s) + T::wire(x)
    { assert(s.push(x).drop_last() =~= s); }
}
/// ASSUMED (alloc): the capacity recorded by a Vec (std guarantees `with_capacity(n).capacity() >= n`; RawVec records exactly n
/// for non-zero-sized element types, which every wire item type is)
pub uninterp spec fn vec_cap<T>(v: Vec<T>) -> usize;

pub mod bounded_env { pub use vstd::prelude::*; pub use crate::vec_cap; pub use std::ops; }
//@extract crates/radicle-node/src/bounded.rs
//@  inmod bounded
//@    use bounded_env::*
//@    item enum Error
//@      derive Debug
//@    item struct BoundedVec
//@      derive Clone, PartialEq, Eq
//@    impl <T, const N: usize> BoundedVec<T, N>
//@      fn with_capacity
//@        attr #[verifier::external_body] // Vec::with_capacity: the capacity actually recorded is not in vstd's Vec model
//@        ret r
//@        ensures
//@          (r is Ok) == (capacity <= N)
//@          # ASSUMED (alloc), see `vec_cap`
//@          r is Ok ==> r->Ok_0.v@.len() == 0 && vec_cap(r->Ok_0.v) == capacity
//@      fn max
//@        ret r
//@        ensures
//@          r == N
//@      fn as_slice
//@        ret r
//@        ensures
//@          r@ == self.v@
//@      fn capacity
//@        attr #[verifier::external_body]
//@        ret r
//@        ensures
//@          r == vec_cap(self.v)
//@      fn push
//@        ret r
//@        requires
//@          # `actual: N + 1` in the error value
//@          old(self).v@.len() >= N ==> N < usize::MAX
//@        ensures
//@          old(self).v@.len() < N ==> r is Ok && final(self).v@ == old(self).v@.push(item)
//@          old(self).v@.len() >= N ==> r is Err && final(self).v@ == old(self).v@
//@    impl <T, const N: usize> ops::Deref for BoundedVec<T, N>
//@      fn deref
//@        ret r
//@        ensures
//@          r@ == self.v@
//@end
pub use bounded::BoundedVec;

// ---- service/message.rs, filter.rs pieces ------------------------------------------------------------------------
pub mod filter {
    use vstd::prelude::*;
    pub const FILTER_SIZE_S: usize = 1024;
    pub const FILTER_SIZE_M: usize = 4096;
    pub const FILTER_SIZE_L: usize = 16384;
    pub const FILTER_SIZES: [usize; 3] = [FILTER_SIZE_S, FILTER_SIZE_M, FILTER_SIZE_L];
    pub const FILTER_HASHES: usize = 7;
    /// stand-in for bloomy::BloomFilter (external crate): the filter IS its byte array
    pub struct BloomFilter { pub bytes: Vec<u8> }
    impl BloomFilter {
        /// ASSUMED (bloomy): as_bytes returns the bytes the filter was built from
        pub fn as_bytes(&self) -> (r: &[u8]) ensures r@ == self.bytes@ { self.bytes.as_slice() }
        /// ASSUMED (bloomy + the constants test in filter.rs): a filter of one of the three sizes uses FILTER_HASHES hashes
        #[verifier::external_body] pub fn hashes(&self) -> (r: usize) ensures r == FILTER_HASHES { unimplemented!() }
    }
    impl From<Vec<u8>> for BloomFilter { fn from(b: Vec<u8>) -> (r: BloomFilter) ensures r.bytes == b { BloomFilter { bytes: b } } }
    impl vstd::std_specs::convert::FromSpecImpl<Vec<u8>> for BloomFilter { open spec fn obeys_from_spec() -> bool { true } open spec fn from_spec(b: Vec<u8>) -> BloomFilter { BloomFilter { bytes: b } } }
    pub struct Filter(pub BloomFilter);
    impl std::ops::Deref for Filter { type Target = BloomFilter; fn deref(&self) -> (r: &BloomFilter) ensures *r == self.0 { &self.0 } }
    impl From<BloomFilter> for Filter { fn from(b: BloomFilter) -> (r: Filter) ensures r == Filter(b) { Filter(b) } }
    impl vstd::std_specs::convert::FromSpecImpl<BloomFilter> for Filter { open spec fn obeys_from_spec() -> bool { true } open spec fn from_spec(b: BloomFilter) -> Filter { Filter(b) } }
    /// stand-in for `FILTER_SIZES.contains(&size)` (slice::contains on a const array)
    pub fn vx_is_filter_size(size: usize) -> (r: bool) ensures r == (size == 1024 || size == 4096 || size == 16384) { size == 1024 || size == 4096 || size == 16384 }
}
pub use filter::Filter;
pub mod wire { pub use crate::{Encode, Decode, Error, Size}; }
pub mod crypto { pub use crate::Signature; }
pub use crate::git::Oid;
// ---- leaves of the node announcement that are NOT under contract (strings / external address types) ------------------
/// Alias, UserAgent (validated strings, `str` byte reasoning is outside Verus) and Address (cyphernet): opaque values
/// whose wire bytes are uninterpreted; ASSUMED to satisfy the Encode/Decode contracts of this unit (no alternative form).
pub struct Alias { pub opaque: u64 }
pub struct UserAgent { pub opaque: u64 }
pub uninterp spec fn alias_bytes(a: Alias) -> Seq<u8>;
pub uninterp spec fn agent_bytes(a: UserAgent) -> Seq<u8>;
pub uninterp spec fn default_agent() -> UserAgent;
impl UserAgent { #[verifier::external_body] pub fn default() -> (r: UserAgent) ensures r == default_agent() { unimplemented!() } }
impl Encode for Alias { open spec fn enc(&self) -> Seq<u8> { alias_bytes(*self) }
    #[verifier::external_body] fn encode<W: io::Write + ?Sized>(&self, writer: &mut W) -> Result<usize, io::Error> { unimplemented!() } }
impl Decode for Alias { open spec fn wire(v: Self) -> Seq<u8> { alias_bytes(v) } open spec fn canonical_only() -> bool { true } open spec fn loose(v: Self, before: Seq<u8>, after: Seq<u8>) -> bool { true }
    #[verifier::external_body] fn decode<R: io::Read + ?Sized>(reader: &mut R) -> Result<Self, Error> { unimplemented!() } }
impl Encode for UserAgent { open spec fn enc(&self) -> Seq<u8> { agent_bytes(*self) }
    #[verifier::external_body] fn encode<W: io::Write + ?Sized>(&self, writer: &mut W) -> Result<usize, io::Error> { unimplemented!() } }
impl Decode for UserAgent { open spec fn wire(v: Self) -> Seq<u8> { agent_bytes(v) } open spec fn canonical_only() -> bool { true } open spec fn loose(v: Self, before: Seq<u8>, after: Seq<u8>) -> bool { true }
    #[verifier::external_body] fn decode<R: io::Read + ?Sized>(reader: &mut R) -> Result<Self, Error> { unimplemented!() } }
// ---- node addresses (std::net, cyphernet: external) -----------------------------------------------------------------
pub mod net {
    use vstd::prelude::*;
    #[derive(Clone, Copy, PartialEq, Eq, Debug)] pub struct Ipv4Addr(pub [u8; 4]);
    #[derive(Clone, Copy, PartialEq, Eq, Debug)] pub struct Ipv6Addr(pub [u8; 16]);
    /// ASSUMED (std::net): octets() / From<[u8; N]> are the identity on the address bytes
    impl Ipv4Addr { pub fn octets(&self) -> (r: [u8; 4]) ensures r == self.0 { self.0 } }
    impl Ipv6Addr { pub fn octets(&self) -> (r: [u8; 16]) ensures r == self.0 { self.0 } }
    impl From<[u8; 4]> for Ipv4Addr { fn from(b: [u8; 4]) -> (r: Ipv4Addr) ensures r == Ipv4Addr(b) { Ipv4Addr(b) } }
    impl vstd::std_specs::convert::FromSpecImpl<[u8; 4]> for Ipv4Addr { open spec fn obeys_from_spec() -> bool { true } open spec fn from_spec(b: [u8; 4]) -> Ipv4Addr { Ipv4Addr(b) } }
    impl From<[u8; 16]> for Ipv6Addr { fn from(b: [u8; 16]) -> (r: Ipv6Addr) ensures r == Ipv6Addr(b) { Ipv6Addr(b) } }
    impl vstd::std_specs::convert::FromSpecImpl<[u8; 16]> for Ipv6Addr { open spec fn obeys_from_spec() -> bool { true } open spec fn from_spec(b: [u8; 16]) -> Ipv6Addr { Ipv6Addr(b) } }
    #[derive(Clone, Copy, PartialEq, Eq, Debug)] pub enum IpAddr { V4(Ipv4Addr), V6(Ipv6Addr) }
    impl IpAddr {
        /// std: maps IPv4-mapped IPv6 addresses to IPv4 -- result arbitrary here
        #[verifier::external_body] pub fn to_canonical(&self) -> IpAddr { unimplemented!() }
    }
}
pub mod tor {
    pub struct OnionAddrDecodeError;
    /// opaque leaf (cyphernet): ASSUMED codec contract below
    #[derive(Clone, Copy)] pub struct OnionAddrV3 { pub opaque: u64 }
}
pub uninterp spec fn onion_bytes(a: tor::OnionAddrV3) -> Seq<u8>;
impl Encode for tor::OnionAddrV3 { open spec fn enc(&self) -> Seq<u8> { onion_bytes(*self) }
    #[verifier::external_body] fn encode<W: io::Write + ?Sized>(&self, writer: &mut W) -> Result<usize, io::Error> { unimplemented!() } }
impl Decode for tor::OnionAddrV3 { open spec fn wire(v: Self) -> Seq<u8> { onion_bytes(v) } open spec fn canonical_only() -> bool { true } open spec fn loose(v: Self, before: Seq<u8>, after: Seq<u8>) -> bool { true }
    #[verifier::external_body] fn decode<R: io::Read + ?Sized>(reader: &mut R) -> Result<Self, Error> { unimplemented!() } }
/// String: u8 length + UTF-8 bytes. `str` byte reasoning is outside Verus: the UTF-8 encoding of a text is uninterpreted,
/// the encoder is an ASSUMED leaf, the decoder is extracted below relative to the ASSUMED contract of String::from_utf8
pub uninterp spec fn str_utf8(s: Seq<char>) -> Seq<u8>;
pub open spec fn string_bytes(s: String) -> Seq<u8> { be_u8(str_utf8(s@).len() as u8) + str_utf8(s@) }
impl Encode for String { open spec fn enc(&self) -> Seq<u8> { string_bytes(*self) }
    #[verifier::external_body] fn encode<W: io::Write + ?Sized>(&self, writer: &mut W) -> Result<usize, io::Error> { unimplemented!() } }
/// ASSUMED (alloc): String::from_utf8 accepts exactly the valid UTF-8 byte strings and is the inverse of the encoding
#[verifier::external_body]
pub fn vx_from_utf8(v: Vec<u8>) -> (r: Result<String, FromUtf8Error>) ensures r is Ok ==> str_utf8(r->Ok_0@) == v@ { unimplemented!() }
/// ASSUMED (alloc): lossy conversion -- invalid sequences become U+FFFD, so nothing relates the text to the bytes
/// ASSUMED (core): Result::unwrap_or yields the Ok value, else the default (only so that code using it can be decided)
pub assume_specification<T, E>[Result::<T, E>::unwrap_or](r: Result<T, E>, d: T) -> (o: T) ensures o == (match r { Ok(v) => v, Err(_) => d });
pub assume_specification<'a>[String::from_utf8_lossy](v: &'a [u8]) -> std::borrow::Cow<'a, str>;
pub assume_specification<'a, B: ?Sized + ToOwned>[std::borrow::Cow::<'a, B>::into_owned](c: std::borrow::Cow<'a, B>) -> <B as ToOwned>::Owned;
/// cyphernet::addr::HostName is #[non_exhaustive]: `Other` stands for variants this crate does not know
pub enum HostName { Ip(net::IpAddr), Dns(String), Tor(tor::OnionAddrV3), Other }
pub struct NetAddr<H> { pub host: H, pub port: u16 }
pub struct Address(pub NetAddr<HostName>);
impl std::ops::Deref for Address { type Target = NetAddr<HostName>; fn deref(&self) -> (r: &NetAddr<HostName>) ensures *r == self.0 { &self.0 } }
impl From<NetAddr<HostName>> for Address { fn from(a: NetAddr<HostName>) -> (r: Address) ensures r == Address(a) { Address(a) } }
impl vstd::std_specs::convert::FromSpecImpl<NetAddr<HostName>> for Address { open spec fn obeys_from_spec() -> bool { true } open spec fn from_spec(a: NetAddr<HostName>) -> Address { Address(a) } }
impl Address { pub fn port(&self) -> (r: u16) ensures r == self.0.port { self.0.port } }
/// wire form of an address (from the format: type byte, host, big-endian port)
pub open spec fn address_bytes(a: Address) -> Seq<u8> {
    (match a.0.host {
        HostName::Ip(net::IpAddr::V4(ip)) => be_u8(1) + ip.0@,
        HostName::Ip(net::IpAddr::V6(ip)) => be_u8(2) + ip.0@,
        HostName::Dns(d) => be_u8(3) + string_bytes(d),
        HostName::Tor(t) => be_u8(4) + onion_bytes(t),
        HostName::Other => Seq::<u8>::empty(),
    }) + be_u16(a.0.port)
}
/// stand-in for `UserAgent::decode(&mut io::Read::chain(first.as_slice(), &mut *reader))`.
/// ASSUMED (std::io::Chain + the Decode contract of UserAgent): decodes from the byte `first` followed by the reader.
#[verifier::external_body]
pub fn vx_decode_agent_after<R: io::Read + ?Sized>(first: [u8; 1], reader: &mut R) -> (r: Result<UserAgent, Error>)
    ensures r is Ok ==> first@ + (*old(reader)).rem() =~= agent_bytes(r->Ok_0) + (*final(reader)).rem()
{ unimplemented!() }
pub mod node {
    use vstd::prelude::*;
    #[derive(Clone, Copy, Debug, PartialEq, Eq)] pub struct Features(pub u64);
    impl std::ops::Deref for Features { type Target = u64; fn deref(&self) -> (r: &u64) ensures *r == self.0 { &self.0 } }
    impl From<u64> for Features { fn from(x: u64) -> (r: Features) ensures r == Features(x) { Features(x) } }
    impl vstd::std_specs::convert::FromSpecImpl<u64> for Features { open spec fn obeys_from_spec() -> bool { true } open spec fn from_spec(x: u64) -> Features { Features(x) } }
    pub struct AliasError;
}
/// associativity of concatenation, for the six leading fields of a node announcement (a dedicated lemma keeps this
/// out of the decoder's own query)
pub proof fn lemma_cat6(a: Seq<u8>, b: Seq<u8>, c: Seq<u8>, d: Seq<u8>, e: Seq<u8>, f: Seq<u8>, r: Seq<u8>)
    ensures a + (b + (c + (d + (e + (f + r))))) =~= (((((a + b) + c) + d) + e) + f) + r
{}
/// the node announcement up to and including the nonce
pub open spec fn node_ann_body(a: NodeAnnouncement) -> Seq<u8> {
    be_u8(a.version) + be_u64(a.features.0) + be_u64(a.timestamp.0) + alias_bytes(a.alias) + a.addresses.enc() + be_u64(a.nonce)
}
//@extract crates/radicle-node/src/service/message.rs
//@  item const ADDRESS_LIMIT
//@  item struct NodeAnnouncement
//@    derive
//@  item const REF_REMOTE_LIMIT
//@  item const INVENTORY_LIMIT
//@  item struct Subscribe
//@    derive
//@  item struct RefsAnnouncement
//@    derive
//@  item struct InventoryAnnouncement
//@    derive
//@  item enum Info
//@    derive
//@  item enum AnnouncementMessage
//@    derive
//@  impl From<NodeAnnouncement> for AnnouncementMessage
//@    fn from
//@      ret r
//@      ensures
//@        r == AnnouncementMessage::Node(ann)
//@  impl From<InventoryAnnouncement> for AnnouncementMessage
//@    fn from
//@      ret r
//@      ensures
//@        r == AnnouncementMessage::Inventory(ann)
//@  impl From<RefsAnnouncement> for AnnouncementMessage
//@    fn from
//@      ret r
//@      ensures
//@        r == AnnouncementMessage::Refs(ann)
//@  item struct Announcement
//@    derive
//@  item enum Message
//@    derive
//@  item struct Ping
//@    derive
//@  impl From<Announcement> for Message
//@    fn from
//@      ret r
//@      ensures
//@        r == Message::Announcement(ann)
//@  impl wire::Encode for NodeAnnouncement
//@    add
//@      open spec fn enc(&self) -> Seq<u8> { node_ann_body(*self) + agent_bytes(self.agent) }
//@    fn encode
//@      touch self.enc()
//@      desugar_try
//@      head
//@        proof { std_from_refl::<io::Error>(); }
//@  impl wire::Decode for NodeAnnouncement
//@    add
//@      open spec fn wire(v: Self) -> Seq<u8> { node_ann_body(v) + agent_bytes(v.agent) }
//@      open spec fn canonical_only() -> bool { false }
//@      /// the statement's exception: the trailing user agent may be left out altogether, at the very end of the input
//@      /// (the value then carries the default agent); anything else must be the canonical bytes
//@      open spec fn loose(v: Self, before: Seq<u8>, after: Seq<u8>) -> bool {
//@          before =~= Self::wire(v) + after || (v.agent == default_agent() && before =~= node_ann_body(v) && after.len() == 0)
//@      }
//@    fn decode
//@      touch Self::wire(arbitrary())
//@      desugar_try
//@      body_sub UserAgent::decode\(&mut io::Read::chain\(first\.as_slice\(\), &mut \*reader\)\) => vx_decode_agent_after(first, reader)
//@      head
//@        proof { std_from_refl::<wire::Error>(); }
//@      hint 1 let nonce = 
//@        lemma_flat_eq::<Address>(addresses.v@);
//@      hint 1 let agent = 
//@        lemma_cat6(be_u8(version), be_u64(features.0), be_u64(timestamp.0), alias_bytes(alias), addresses.enc(), be_u64(nonce), (*reader).rem());
//@  item struct ZeroBytes
//@    derive Clone, Debug, PartialEq, Eq
//@  impl ZeroBytes
//@    fn new
//@      ret r
//@      ensures
//@        r.0 == size
//@    fn len
//@      ret r
//@      ensures
//@        r == self.0
//@      body_sub self\.0\.into\(\) => self.0 as usize
//@end
impl vstd::std_specs::convert::FromSpecImpl<NodeAnnouncement> for AnnouncementMessage { open spec fn obeys_from_spec() -> bool { true } open spec fn from_spec(a: NodeAnnouncement) -> AnnouncementMessage { AnnouncementMessage::Node(a) } }
impl vstd::std_specs::convert::FromSpecImpl<InventoryAnnouncement> for AnnouncementMessage { open spec fn obeys_from_spec() -> bool { true } open spec fn from_spec(a: InventoryAnnouncement) -> AnnouncementMessage { AnnouncementMessage::Inventory(a) } }
impl vstd::std_specs::convert::FromSpecImpl<RefsAnnouncement> for AnnouncementMessage { open spec fn obeys_from_spec() -> bool { true } open spec fn from_spec(a: RefsAnnouncement) -> AnnouncementMessage { AnnouncementMessage::Refs(a) } }
impl vstd::std_specs::convert::FromSpecImpl<Announcement> for Message { open spec fn obeys_from_spec() -> bool { true } open spec fn from_spec(a: Announcement) -> Message { Message::Announcement(a) } }
/// ASSUMED (std): Vec<u8> as io::Write appends and never fails
impl<A: std::alloc::Allocator> WriteSpecImpl for Vec<u8, A> { open spec fn written(&self) -> Seq<u8> { self@ } }
/// "encoding `data` into a Vec succeeds": for Message this is exactly `enc().len() <= Size::MAX` (Message::encode), see lemma_message_fits
pub uninterp spec fn vx_encodes_ok<T: Encode + ?Sized>(data: &T) -> bool;
/// stand-in for `data.encode(&mut buffer).unwrap()`: the call itself is the trait method under contract; the unwrap is
/// justified by the precondition (ASSUMED: Vec's Write never fails, so encode fails only where it says so itself)
#[verifier::external_body]
pub fn vx_encode_unwrap<T: Encode + ?Sized>(data: &T, buffer: &mut Vec<u8>) -> (n: usize)
    requires vx_encodes_ok(data)
    ensures final(buffer)@ =~= old(buffer)@ + data.enc(), n == data.enc().len()
{ data.encode(buffer).unwrap() }
pub struct FromUtf8Error;
pub mod fmt { pub struct Error; }

//@extract crates/radicle-node/src/wire.rs
//@  item type Size
//@  item enum Error
//@    derive
//@    thiserror_from
//@  impl Error
//@    add
//@      pub open spec fn is_eof_spec(self) -> bool { self matches Error::Io(e) && is_eof_kind(e) }
//@    fn is_eof
//@      ret r
//@      ensures
//@        r == self.is_eof_spec()
//@  trait Encode
//@    add
//@      /// ghost: the bytes of this value on the wire
//@      spec fn enc(&self) -> Seq<u8>;
//@    fn encode
//@      ret r
//@      ensures
//@        r is Ok ==> (*final(writer)).written() =~= (*old(writer)).written() + self.enc() //[C15]
//@        r is Ok ==> r->Ok_0 == self.enc().len() //[C15]
//@        r is Ok ==> (*final(writer)).written().len() <= usize::MAX
//@  trait Decode
//@    add
//@      /// ghost: the byte string that decodes to `v`
//@      spec fn wire(v: Self) -> Seq<u8>;
//@      /// ghost: true for every type whose decoder accepts only `wire(v)`; false only where the statement makes an
//@      /// exception (a node announcement "without the optional trailing user agent") and for types embedding one
//@      spec fn canonical_only() -> bool;
//@      /// ghost: what a successful decode guarantees for a type that is not canonical_only
//@      spec fn loose(v: Self, before: Seq<u8>, after: Seq<u8>) -> bool;
//@    fn decode
//@      ret r
//@      ensures
//@        r is Ok && Self::canonical_only() ==> (*old(reader)).rem() =~= Self::wire(r->Ok_0) + (*final(reader)).rem() //[C15]
//@        r is Ok && !Self::canonical_only() ==> Self::loose(r->Ok_0, (*old(reader)).rem(), (*final(reader)).rem()) //[C15]
//@  impl Encode for u8
//@    add
//@      open spec fn enc(&self) -> Seq<u8> { be_u8(*self) }
//@    fn encode
//@      touch self.enc()
//@      desugar_try
//@      head
//@        proof { std_from_refl::<io::Error>(); assert(self.enc() == be_u8(*self)); }
//@  impl Encode for u16
//@    add
//@      open spec fn enc(&self) -> Seq<u8> { be_u16(*self) }
//@    fn encode
//@      touch self.enc()
//@      desugar_try
//@      head
//@        proof { std_from_refl::<io::Error>(); assert(self.enc() == be_u16(*self)); }
//@  impl Encode for u32
//@    add
//@      open spec fn enc(&self) -> Seq<u8> { be_u32(*self) }
//@    fn encode
//@      touch self.enc()
//@      desugar_try
//@      head
//@        proof { std_from_refl::<io::Error>(); assert(self.enc() == be_u32(*self)); }
//@  impl Encode for u64
//@    add
//@      open spec fn enc(&self) -> Seq<u8> { be_u64(*self) }
//@    fn encode
//@      touch self.enc()
//@      desugar_try
//@      head
//@        proof { std_from_refl::<io::Error>(); assert(self.enc() == be_u64(*self)); }
//@  impl <const T: usize> Encode for [u8; T]
//@    add
//@      open spec fn enc(&self) -> Seq<u8> { self@ }
//@    fn encode
//@      touch self.enc()
//@      desugar_try
//@      head
//@        proof { std_from_refl::<io::Error>(); }
//@  impl Decode for u8
//@    add
//@      open spec fn wire(v: Self) -> Seq<u8> { be_u8(v) }
//@      open spec fn canonical_only() -> bool { true } open spec fn loose(v: Self, before: Seq<u8>, after: Seq<u8>) -> bool { true }
//@    fn decode
//@      touch Self::wire(arbitrary())
//@      body_sub reader\.read_u8\(\)\.map_err\(Error::from\) => reader.read_u8().map_err(|e| -> (o: Error) ensures o == Error::Io(e) { Error::from(e) })
//@  impl Decode for u16
//@    add
//@      open spec fn wire(v: Self) -> Seq<u8> { be_u16(v) }
//@      open spec fn canonical_only() -> bool { true } open spec fn loose(v: Self, before: Seq<u8>, after: Seq<u8>) -> bool { true }
//@    fn decode
//@      touch Self::wire(arbitrary())
//@      body_sub reader\.read_u16::<NetworkEndian>\(\)\.map_err\(Error::from\) => reader.read_u16::<NetworkEndian>().map_err(|e| -> (o: Error) ensures o == Error::Io(e) { Error::from(e) })
//@  impl Decode for u32
//@    add
//@      open spec fn wire(v: Self) -> Seq<u8> { be_u32(v) }
//@      open spec fn canonical_only() -> bool { true } open spec fn loose(v: Self, before: Seq<u8>, after: Seq<u8>) -> bool { true }
//@    fn decode
//@      touch Self::wire(arbitrary())
//@      body_sub reader\.read_u32::<NetworkEndian>\(\)\.map_err\(Error::from\) => reader.read_u32::<NetworkEndian>().map_err(|e| -> (o: Error) ensures o == Error::Io(e) { Error::from(e) })
//@  impl Decode for u64
//@    add
//@      open spec fn wire(v: Self) -> Seq<u8> { be_u64(v) }
//@      open spec fn canonical_only() -> bool { true } open spec fn loose(v: Self, before: Seq<u8>, after: Seq<u8>) -> bool { true }
//@    fn decode
//@      touch Self::wire(arbitrary())
//@      body_sub reader\.read_u64::<NetworkEndian>\(\)\.map_err\(Error::from\) => reader.read_u64::<NetworkEndian>().map_err(|e| -> (o: Error) ensures o == Error::Io(e) { Error::from(e) })
//@  impl <const N: usize> Decode for [u8; N]
//@    add
//@      open spec fn wire(v: Self) -> Seq<u8> { v@ }
//@      open spec fn canonical_only() -> bool { true } open spec fn loose(v: Self, before: Seq<u8>, after: Seq<u8>) -> bool { true }
//@    fn decode
//@      touch Self::wire(arbitrary())
//@      desugar_try
//@  impl Encode for PublicKey
//@    add
//@      open spec fn enc(&self) -> Seq<u8> { self.0@ }
//@    fn encode
//@      touch self.enc()
//@  impl <T> Encode for &[T] where T: Encode,
//@    add
//@      open spec fn enc(&self) -> Seq<u8> { be_u16(self@.len() as u16) + flat_enc(self@) }
//@    fn encode
//@      touch self.enc()
//@      attr #[verifier::exec_allows_no_decreases_clause]
//@      desugar_try
//@      desugar_for
//@      body_sub self\.iter\(\) => vx_iter(self)
//@      head
//@        proof { std_from_refl::<io::Error>(); assert(self.enc() == be_u16(self@.len() as u16) + flat_enc(self@)); }
//@        broadcast use vx_lem::lemma_flat_enc_push;
//@      loop 1
//@        invariant
//@          __vx_it1.s == *self && __vx_it1.pos <= self@.len()
//@          n == 2 + flat_enc(self@.take(__vx_it1.pos as int)).len()
//@          (*writer).written() =~= (*old(writer)).written() + be_u16(self@.len() as u16) + flat_enc(self@.take(__vx_it1.pos as int))
//@          (*writer).written().len() <= usize::MAX
//@        ensures
//@          __vx_it1.pos == self@.len()
//@      hint 1 n \+= \(match item\.encode
//@        assert(self@.take(__vx_it1.pos as int) =~= self@.take(__vx_it1.pos - 1).push(*item));
//@        vx_lem::lemma_flat_enc_push(self@.take(__vx_it1.pos - 1), *item);
//@      hint 1 Ok\(n\)\s*\}\s*$
//@        assert(self@.take(self@.len() as int) =~= self@);
//@  impl Encode for RepoId
//@    add
//@      open spec fn enc(&self) -> Seq<u8> { self.0.enc() }
//@    fn encode
//@      touch self.enc()
//@  impl Encode for Signature
//@    add
//@      open spec fn enc(&self) -> Seq<u8> { self.0@ }
//@    fn encode
//@      touch self.enc()
//@  impl Encode for git::Oid
//@    add
//@      open spec fn enc(&self) -> Seq<u8> { be_u16(20) + self.0.0@ }
//@    fn encode
//@      touch self.enc()
//@      head
//@        proof { lemma_flat_bytes(self.0.0@); }
//@  impl Decode for String
//@    add
//@      open spec fn wire(v: Self) -> Seq<u8> { string_bytes(v) }
//@      open spec fn canonical_only() -> bool { true } open spec fn loose(v: Self, before: Seq<u8>, after: Seq<u8>) -> bool { true }
//@    fn decode
//@      touch Self::wire(arbitrary())
//@      desugar_try
//@      body_sub? String::from_utf8\(bytes\) => vx_from_utf8(bytes)
//@      head
//@        proof { std_from_refl::<Error>(); }
//@  impl Decode for PublicKey
//@    add
//@      open spec fn wire(v: Self) -> Seq<u8> { v.0@ }
//@      open spec fn canonical_only() -> bool { true } open spec fn loose(v: Self, before: Seq<u8>, after: Seq<u8>) -> bool { true }
//@    fn decode
//@      touch Self::wire(arbitrary())
//@      desugar_try
//@      head
//@        proof { std_from_refl::<Error>(); }
//@  impl Decode for git::Oid
//@    add
//@      open spec fn wire(v: Self) -> Seq<u8> { be_u16(20) + v.0.0@ }
//@      open spec fn canonical_only() -> bool { true } open spec fn loose(v: Self, before: Seq<u8>, after: Seq<u8>) -> bool { true }
//@    fn decode
//@      touch Self::wire(arbitrary())
//@      desugar_try
//@      # ASSUMED: git2's raw Oid is 20 bytes (the std intrinsic cannot be evaluated in a const by Verus)
//@      body_sub mem::size_of::<git::raw::Oid>\(\) => 20
//@      body_sub \.expect\("the buffer is exactly the right size"\) => .unwrap()
//@      head
//@        proof { std_from_refl::<Error>(); }
//@  impl Decode for Signature
//@    add
//@      open spec fn wire(v: Self) -> Seq<u8> { v.0@ }
//@      open spec fn canonical_only() -> bool { true } open spec fn loose(v: Self, before: Seq<u8>, after: Seq<u8>) -> bool { true }
//@    fn decode
//@      touch Self::wire(arbitrary())
//@      desugar_try
//@      head
//@        proof { std_from_refl::<Error>(); }
//@  impl Decode for RepoId
//@    add
//@      open spec fn wire(v: Self) -> Seq<u8> { git::Oid::wire(v.0) }
//@      open spec fn canonical_only() -> bool { true } open spec fn loose(v: Self, before: Seq<u8>, after: Seq<u8>) -> bool { true }
//@    fn decode
//@      touch Self::wire(arbitrary())
//@      desugar_try
//@      head
//@        proof { std_from_refl::<Error>(); }
//@  impl Encode for RefsAt
//@    add
//@      open spec fn enc(&self) -> Seq<u8> { self.remote.enc() + self.at.enc() }
//@    fn encode
//@      touch self.enc()
//@      desugar_try
//@      head
//@        proof { std_from_refl::<io::Error>(); }
//@  impl Decode for RefsAt
//@    add
//@      open spec fn wire(v: Self) -> Seq<u8> { PublicKey::wire(v.remote) + git::Oid::wire(v.at) }
//@      open spec fn canonical_only() -> bool { true } open spec fn loose(v: Self, before: Seq<u8>, after: Seq<u8>) -> bool { true }
//@    fn decode
//@      touch Self::wire(arbitrary())
//@      desugar_try
//@      head
//@        proof { std_from_refl::<Error>(); }
//@  impl Encode for node::Features
//@    add
//@      open spec fn enc(&self) -> Seq<u8> { be_u64(self.0) }
//@    fn encode
//@      touch self.enc()
//@  impl Decode for node::Features
//@    add
//@      open spec fn wire(v: Self) -> Seq<u8> { be_u64(v.0) }
//@      open spec fn canonical_only() -> bool { true } open spec fn loose(v: Self, before: Seq<u8>, after: Seq<u8>) -> bool { true }
//@    fn decode
//@      touch Self::wire(arbitrary())
//@      desugar_try
//@      head
//@        proof { std_from_refl::<Error>(); }
//@  impl Encode for Timestamp
//@    add
//@      open spec fn enc(&self) -> Seq<u8> { be_u64(self.0) }
//@    fn encode
//@      touch self.enc()
//@  impl Decode for Timestamp
//@    add
//@      open spec fn wire(v: Self) -> Seq<u8> { be_u64(v.0) }
//@      open spec fn canonical_only() -> bool { true } open spec fn loose(v: Self, before: Seq<u8>, after: Seq<u8>) -> bool { true }
//@    fn decode
//@      touch Self::wire(arbitrary())
//@      desugar_try
//@      body_sub \.map_err\(Error::InvalidTimestamp\) => .map_err(|e| -> (o: Error) { Error::InvalidTimestamp(e) })
//@      head
//@        proof { std_from_refl::<Error>(); }
//@end

//@extract crates/radicle-node/src/wire.rs
//@  impl <T, const N: usize> Encode for BoundedVec<T, N> where T: Encode,
//@    add
//@      open spec fn enc(&self) -> Seq<u8> { be_u16(self.v@.len() as u16) + flat_enc(self.v@) }
//@    fn encode
//@      touch self.enc()
//@  impl <T, const N: usize> Decode for BoundedVec<T, N> where T: Decode,
//@    add
//@      open spec fn wire(v: Self) -> Seq<u8> { be_u16(v.v@.len() as u16) + flat_wire(v.v@) }
//@      open spec fn canonical_only() -> bool { T::canonical_only() } open spec fn loose(v: Self, before: Seq<u8>, after: Seq<u8>) -> bool { true }
//@    fn decode
//@      touch Self::wire(arbitrary())
//@      attr #[verifier::exec_allows_no_decreases_clause]
//@      desugar_try
//@      body_sub for _ in 0\.\.items\.capacity\(\) => for _i in vx_r: 0..items.capacity()
//@      body_sub \.map_err\(\|_vx\d+\| Error::InvalidSize \{\s*expected: Self::max\(\),\s*actual: len,\s*\}\) => .map_err(|_e| -> (o: Error) { Error::InvalidSize { expected: Self::max(), actual: len } })
//@      head
//@        proof { std_from_refl::<Error>(); }
//@        let ghost vx_len = arbitrary::<u16>();
//@      loop 1
//@        invariant
//@          items.v@.len() == _i && _i <= len && vx_r.iter.end == len && len <= N && len <= 65535
//@          T::canonical_only() ==> (*old(reader)).rem() =~= be_u16(len as u16) + flat_wire(items.v@) + (*reader).rem()
//@      hint 1 items\.push\(item\)\.ok\(\);
//@        vx_lem::lemma_flat_wire_push(items.v@, item);
//@  impl Encode for filter::Filter
//@    add
//@      open spec fn enc(&self) -> Seq<u8> { be_u16(self.0.bytes@.len() as u16) + self.0.bytes@ }
//@    fn encode
//@      touch self.enc()
//@      desugar_try
//@      head
//@        proof { std_from_refl::<io::Error>(); lemma_flat_bytes(self.0.bytes@); }
//@  impl Decode for filter::Filter
//@    add
//@      open spec fn wire(v: Self) -> Seq<u8> { be_u16(v.0.bytes@.len() as u16) + v.0.bytes@ }
//@      open spec fn canonical_only() -> bool { true } open spec fn loose(v: Self, before: Seq<u8>, after: Seq<u8>) -> bool { true }
//@    fn decode
//@      touch Self::wire(arbitrary())
//@      desugar_try
//@      body_sub !filter::FILTER_SIZES\.contains\(&size\) => !filter::vx_is_filter_size(size)
//@      body_sub reader\.read_exact\(&mut bytes\[\.\.\]\) => reader.read_exact(bytes.as_mut_slice())
//@      head
//@        proof { std_from_refl::<Error>(); }
//@end

/// From the statement / wire format: type id (u16), then the fields in declaration order of the encoder.
pub open spec fn ann_msg_bytes(m: AnnouncementMessage) -> Seq<u8> {
    match m { AnnouncementMessage::Node(a) => a.enc(), AnnouncementMessage::Inventory(a) => a.enc(), AnnouncementMessage::Refs(a) => a.enc() }
}
pub open spec fn msg_type(m: Message) -> u16 {
    match m {
        Message::Subscribe(_) => 8,
        Message::Announcement(a) => match a.message { AnnouncementMessage::Node(_) => 2, AnnouncementMessage::Inventory(_) => 4, AnnouncementMessage::Refs(_) => 6 },
        Message::Info(_) => 14, Message::Ping(_) => 10, Message::Pong { .. } => 12,
    }
}
pub open spec fn msg_bytes(m: Message) -> Seq<u8> {
    be_u16(msg_type(m)) + (match m {
        Message::Subscribe(s) => s.filter.enc() + s.since.enc() + s.until.enc(),
        Message::Announcement(a) => a.node.enc() + a.signature.enc() + ann_msg_bytes(a.message),
        Message::Info(i) => i.enc(),
        Message::Ping(p) => be_u16(p.ponglen) + p.zeroes.enc(),
        Message::Pong { zeroes } => zeroes.enc(),
    })
}
/// the same format, phrased over the decoders' `wire` functions (what `Message::decode` is checked against)
pub open spec fn msg_wire(m: Message) -> Seq<u8> {
    be_u16(msg_type(m)) + (match m {
        Message::Subscribe(s) => Filter::wire(s.filter) + Timestamp::wire(s.since) + Timestamp::wire(s.until),
        Message::Announcement(a) => PublicKey::wire(a.node) + Signature::wire(a.signature) + (match a.message {
            AnnouncementMessage::Node(x) => NodeAnnouncement::wire(x), AnnouncementMessage::Inventory(x) => InventoryAnnouncement::wire(x), AnnouncementMessage::Refs(x) => RefsAnnouncement::wire(x) }),
        Message::Info(i) => Info::wire(i),
        Message::Ping(p) => be_u16(p.ponglen) + ZeroBytes::wire(p.zeroes),
        Message::Pong { zeroes } => ZeroBytes::wire(zeroes),
    })
}
impl vstd::std_specs::convert::TryFromSpecImpl<u16> for MessageType {
    open spec fn obeys_try_from_spec() -> bool { true }
    open spec fn try_from_spec(other: u16) -> Result<MessageType, u16> {
        match other { 2u16 => Ok::<MessageType, u16>(MessageType::NodeAnnouncement), 4u16 => Ok(MessageType::InventoryAnnouncement), 6u16 => Ok(MessageType::RefsAnnouncement), 8u16 => Ok(MessageType::Subscribe), 10u16 => Ok(MessageType::Ping), 12u16 => Ok(MessageType::Pong), 14u16 => Ok(MessageType::Info), _ => Err(other) }
    }
}
impl vstd::std_specs::convert::TryFromSpecImpl<u8> for AddressType {
    open spec fn obeys_try_from_spec() -> bool { true }
    open spec fn try_from_spec(other: u8) -> Result<AddressType, u8> {
        match other { 1u8 => Ok::<AddressType, u8>(AddressType::Ipv4), 2u8 => Ok(AddressType::Ipv6), 3u8 => Ok(AddressType::Dns), 4u8 => Ok(AddressType::Onion), _ => Err(other) }
    }
}
impl vstd::std_specs::convert::TryFromSpecImpl<u16> for InfoType {
    // (the impl's own `ensures` carries the specification; vstd's generic clause is switched off for this type)
    open spec fn obeys_try_from_spec() -> bool { false }
    open spec fn try_from_spec(other: u16) -> Result<InfoType, u16> { arbitrary() }
}
/// per type: the bytes a value decodes from are the bytes it encodes to
pub trait WireLaw: Encode + Decode + Sized { proof fn law(v: Self) ensures Self::wire(v) == v.enc(); }
impl WireLaw for RefsAt { proof fn law(v: Self) {} }
impl WireLaw for RepoId { proof fn law(v: Self) {} }
impl WireLaw for Address { proof fn law(v: Self) {} }
pub proof fn lemma_flat_eq<T: WireLaw>(s: Seq<T>) ensures flat_wire(s) == flat_enc(s) decreases s.len()
{ if s.len() > 0 { lemma_flat_eq::<T>(s.drop_last()); T::law(s.last()); } }
/// C15, second sentence: any bytes that decode to `m` are exactly the bytes `m` encodes to
pub proof fn lemma_message_canonical(m: Message) ensures Message::wire(m) == m.enc()
{
    match m {
        Message::Announcement(a) => match a.message {
            AnnouncementMessage::Inventory(x) => { lemma_flat_eq::<RepoId>(x.inventory.v@); }
            AnnouncementMessage::Refs(x) => { lemma_flat_eq::<RefsAt>(x.refs.v@); }
            AnnouncementMessage::Node(x) => { lemma_flat_eq::<Address>(x.addresses.v@); }
        },
        _ => {}
    }
}
/// the one alternative form of a message: a node announcement whose trailing user agent is left out
pub open spec fn msg_alt(m: Message) -> Option<Seq<u8>> {
    match m {
        Message::Announcement(a) => match a.message {
            AnnouncementMessage::Node(x) => if x.agent == default_agent() { Some(be_u16(2) + PublicKey::wire(a.node) + Signature::wire(a.signature) + node_ann_body(x)) } else { None },
            _ => None,
        },
        _ => None,
    }
}
/// C15, first sentence ("every message the node can construct encodes within the 64 KiB frame limit"): the limits the
/// node's constructors respect (BoundedVec bounds, the three filter sizes, Ping::MAX_PING_ZEROES / MAX_PONG_ZEROES)
pub open spec fn constructible(m: Message) -> bool {
    match m {
        Message::Subscribe(s) => s.filter.0.bytes@.len() <= 16384,
        Message::Announcement(a) => match a.message {
            AnnouncementMessage::Inventory(x) => x.inventory.v@.len() <= INVENTORY_LIMIT,
            AnnouncementMessage::Refs(x) => x.refs.v@.len() <= REF_REMOTE_LIMIT,
            // NOT decided here (node announcement codec is outside the unit): alias <= 32, <= 16 addresses, agent <= 64
            AnnouncementMessage::Node(x) => x.enc().len() <= 65535 - 98,
        },
        Message::Info(_) => true,
        Message::Ping(p) => p.zeroes.0 <= 65535 - 6,
        Message::Pong { zeroes } => zeroes.0 <= 65535 - 4,
    }
}
pub proof fn lemma_flat_len_rid(s: Seq<RepoId>) ensures flat_enc(s).len() == 22 * s.len() decreases s.len()
{ if s.len() > 0 { lemma_flat_len_rid(s.drop_last()); } }
pub proof fn lemma_flat_len_refs_at(s: Seq<RefsAt>) ensures flat_enc(s).len() == 54 * s.len() decreases s.len()
{ if s.len() > 0 { lemma_flat_len_refs_at(s.drop_last()); } }
pub proof fn lemma_message_fits(m: Message) requires constructible(m) ensures m.enc().len() <= 65535
{
    match m {
        Message::Announcement(a) => match a.message {
            AnnouncementMessage::Inventory(x) => { lemma_flat_len_rid(x.inventory.v@); assert(22 * x.inventory.v@.len() <= 22 * 2973) by (nonlinear_arith) requires x.inventory.v@.len() <= 2973; }
            AnnouncementMessage::Refs(x) => { lemma_flat_len_refs_at(x.refs.v@); assert(54 * x.refs.v@.len() <= 54 * 1024) by (nonlinear_arith) requires x.refs.v@.len() <= 1024; }
            _ => {}
        },
        _ => {}
    }
}
//@extract crates/radicle-node/src/wire/message.rs
//@  item enum MessageType
//@    derive Debug, Clone, Copy, PartialEq, Eq
//@  impl From<MessageType> for u16
//@    fn from
//@      attr #[verifier::external_body] // `enum as u16` with explicit discriminants: ASSUMED to yield the declared discriminant
//@      ret r
//@      ensures
//@        r == (match other { MessageType::NodeAnnouncement => 2u16, MessageType::InventoryAnnouncement => 4u16, MessageType::RefsAnnouncement => 6u16, MessageType::Subscribe => 8u16, MessageType::Ping => 10u16, MessageType::Pong => 12u16, MessageType::Info => 14u16 })
//@  impl TryFrom<u16> for MessageType
//@    fn try_from
//@      ret r
//@      ensures
//@        r == (match other { 2u16 => Ok::<MessageType, u16>(MessageType::NodeAnnouncement), 4u16 => Ok(MessageType::InventoryAnnouncement), 6u16 => Ok(MessageType::RefsAnnouncement), 8u16 => Ok(MessageType::Subscribe), 10u16 => Ok(MessageType::Ping), 12u16 => Ok(MessageType::Pong), 14u16 => Ok(MessageType::Info), _ => Err(other) })
//@  impl Message
//@    drop MAX_SIZE
//@    fn type_id
//@      ret r
//@      ensures
//@        r == msg_type(*self)
//@  item enum AddressType
//@    derive Debug, Clone, Copy, PartialEq, Eq
//@  impl From<AddressType> for u8
//@    fn from
//@      attr #[verifier::external_body] // `enum as u8` with explicit discriminants: ASSUMED to yield the declared discriminant
//@      ret r
//@      ensures
//@        r == (match other { AddressType::Ipv4 => 1u8, AddressType::Ipv6 => 2u8, AddressType::Dns => 3u8, AddressType::Onion => 4u8 })
//@  impl TryFrom<u8> for AddressType
//@    fn try_from
//@      attr #[verifier::external_body] // contract assumed IN PLACE only (Verus prunes the TryFromSpecImpl of a type from the query of that type's own try_from -- dependency cycle -- so vstd's generic clause cannot be discharged here); the real body is verified against this same contract as the twin below
//@      twin vx_twin_address_type_try_from
//@        sig (other: u8) -> (r: Result<AddressType, u8>)
//@        self_is AddressType
//@      ret r
//@      ensures
//@        r == (match other { 1u8 => Ok::<AddressType, u8>(AddressType::Ipv4), 2u8 => Ok(AddressType::Ipv6), 3u8 => Ok(AddressType::Dns), 4u8 => Ok(AddressType::Onion), _ => Err(other) })
//@  impl wire::Encode for Address
//@    add
//@      open spec fn enc(&self) -> Seq<u8> { address_bytes(*self) }
//@    fn encode
//@      touch self.enc()
//@      desugar_try
//@      head
//@        proof { std_from_refl::<io::Error>(); std_io_error_from_kind(); }
//@  impl wire::Decode for Address
//@    add
//@      open spec fn wire(v: Self) -> Seq<u8> { address_bytes(v) }
//@      open spec fn canonical_only() -> bool { true } open spec fn loose(v: Self, before: Seq<u8>, after: Seq<u8>) -> bool { true }
//@    fn decode
//@      touch Self::wire(arbitrary())
//@      desugar_try
//@      head
//@        proof { std_from_refl::<wire::Error>(); }
//@  impl wire::Encode for AnnouncementMessage
//@    add
//@      open spec fn enc(&self) -> Seq<u8> { ann_msg_bytes(*self) }
//@    fn encode
//@      touch self.enc()
//@  impl wire::Encode for RefsAnnouncement
//@    add
//@      open spec fn enc(&self) -> Seq<u8> { self.rid.enc() + self.refs.enc() + self.timestamp.enc() }
//@    fn encode
//@      touch self.enc()
//@      desugar_try
//@      head
//@        proof { std_from_refl::<io::Error>(); }
//@  impl wire::Decode for RefsAnnouncement
//@    add
//@      open spec fn wire(v: Self) -> Seq<u8> { RepoId::wire(v.rid) + BoundedVec::<RefsAt, REF_REMOTE_LIMIT>::wire(v.refs) + Timestamp::wire(v.timestamp) }
//@      open spec fn canonical_only() -> bool { true } open spec fn loose(v: Self, before: Seq<u8>, after: Seq<u8>) -> bool { true }
//@    fn decode
//@      touch Self::wire(arbitrary())
//@      desugar_try
//@      head
//@        proof { std_from_refl::<wire::Error>(); }
//@  impl wire::Encode for InventoryAnnouncement
//@    add
//@      open spec fn enc(&self) -> Seq<u8> { self.inventory.enc() + self.timestamp.enc() }
//@    fn encode
//@      touch self.enc()
//@      desugar_try
//@      head
//@        proof { std_from_refl::<io::Error>(); }
//@  impl wire::Decode for InventoryAnnouncement
//@    add
//@      open spec fn wire(v: Self) -> Seq<u8> { BoundedVec::<RepoId, INVENTORY_LIMIT>::wire(v.inventory) + Timestamp::wire(v.timestamp) }
//@      open spec fn canonical_only() -> bool { true } open spec fn loose(v: Self, before: Seq<u8>, after: Seq<u8>) -> bool { true }
//@    fn decode
//@      touch Self::wire(arbitrary())
//@      desugar_try
//@      head
//@        proof { std_from_refl::<wire::Error>(); }
//@  item enum InfoType
//@    derive Debug, Clone, Copy, PartialEq, Eq
//@  impl From<InfoType> for u16
//@    fn from
//@      attr #[verifier::external_body] // `enum as u16`: ASSUMED to yield the declared discriminant
//@      ret r
//@      ensures
//@        r == 1
//@  impl TryFrom<u16> for InfoType
//@    fn try_from
//@      attr #[verifier::external_body] // contract assumed IN PLACE only (Verus prunes the TryFromSpecImpl of a type from the query of that type's own try_from -- dependency cycle -- so vstd's generic clause cannot be discharged here); the real body is verified against this same contract as the twin below
//@      twin vx_twin_info_type_try_from
//@        sig (other: u16) -> (r: Result<InfoType, u16>)
//@        self_is InfoType
//@      ret r
//@      ensures
//@        r == (if other == 1 { Ok::<InfoType, u16>(InfoType::RefsAlreadySynced) } else { Err(other) })
//@  impl From<&Info> for InfoType
//@    fn from
//@  impl wire::Encode for Info
//@    add
//@      open spec fn enc(&self) -> Seq<u8> { match self { Info::RefsAlreadySynced { rid, at } => be_u16(1) + rid.enc() + at.enc() } }
//@    fn encode
//@      touch self.enc()
//@      desugar_try
//@      head
//@        proof { std_from_refl::<io::Error>(); }
//@  impl wire::Decode for Info
//@    add
//@      open spec fn wire(v: Self) -> Seq<u8> { match v { Info::RefsAlreadySynced { rid, at } => be_u16(1) + RepoId::wire(rid) + git::Oid::wire(at) } }
//@      open spec fn canonical_only() -> bool { true } open spec fn loose(v: Self, before: Seq<u8>, after: Seq<u8>) -> bool { true }
//@    fn decode
//@      touch Self::wire(arbitrary())
//@      desugar_try
//@      head
//@        proof { std_from_refl::<wire::Error>(); }
//@  impl wire::Encode for Message
//@    add
//@      open spec fn enc(&self) -> Seq<u8> { msg_bytes(*self) }
//@    fn encode
//@      touch self.enc()
//@      desugar_try
//@      body_sub (?s)io::Error::new\(\s*io::ErrorKind::InvalidData,\s*"Message exceeds maximum size",\s*\) => vx_io_error_new(io::ErrorKind::InvalidData)
//@      head
//@        proof { std_from_refl::<io::Error>(); }
//@      ret r
//@      ensures
//@        # "encodes within the 64 KiB frame limit": whatever encode accepts is at most Size::MAX bytes
//@        r is Ok ==> r->Ok_0 <= 65535 //[C15]
//@  impl wire::Decode for Message
//@    add
//@      open spec fn wire(v: Self) -> Seq<u8> { msg_wire(v) }
//@      open spec fn canonical_only() -> bool { false }
//@      open spec fn loose(v: Self, before: Seq<u8>, after: Seq<u8>) -> bool {
//@          before =~= msg_wire(v) + after || (msg_alt(v) is Some && before =~= msg_alt(v)->Some_0 && after.len() == 0)
//@      }
//@    fn decode
//@      touch Self::wire(arbitrary())
//@      desugar_try
//@      head
//@        proof { std_from_refl::<wire::Error>(); }
//@  impl wire::Encode for ZeroBytes
//@    add
//@      open spec fn enc(&self) -> Seq<u8> { be_u16(self.0) + Seq::new(self.0 as nat, |i: int| 0u8) }
//@    fn encode
//@      touch self.enc()
//@      attr #[verifier::exec_allows_no_decreases_clause]
//@      desugar_try
//@      body_sub for _ in 0\.\.self\.len\(\) => for _i in 0..self.len()
//@      head
//@        proof { std_from_refl::<io::Error>(); }
//@      loop 1
//@        invariant
//@          n == 2 + _i && _i <= self.0
//@          (*writer).written() =~= (*old(writer)).written() + be_u16(self.0) + Seq::new(_i as nat, |i: int| 0u8)
//@          (*writer).written().len() <= usize::MAX
//@  impl wire::Decode for ZeroBytes
//@    add
//@      /// from the statement: whatever decodes re-encodes to the same bytes -- so the padding must be zeroes
//@      open spec fn wire(v: Self) -> Seq<u8> { be_u16(v.0) + Seq::new(v.0 as nat, |i: int| 0u8) }
//@      open spec fn canonical_only() -> bool { true } open spec fn loose(v: Self, before: Seq<u8>, after: Seq<u8>) -> bool { true }
//@    fn decode
//@      touch Self::wire(arbitrary())
//@      attr #[verifier::exec_allows_no_decreases_clause]
//@      desugar_try
//@      body_sub for _ in 0\.\.zeroes => for _i in 0..zeroes
//@      body_sub _ = u8::decode\(reader\)\? => let _b = u8::decode(reader)?
//@      head
//@        proof { std_from_refl::<wire::Error>(); }
//@      loop 1
//@        invariant
//@          (*old(reader)).rem() =~= be_u16(zeroes) + Seq::new(_i as nat, |i: int| 0u8) + (*reader).rem()
//@end

/// a byte slice encodes as its length-prefixed bytes: flat_enc of bytes is the bytes themselves
pub proof fn lemma_flat_bytes(s: Seq<u8>) ensures flat_enc(s) =~= s decreases s.len()
{ if s.len() > 0 { lemma_flat_bytes(s.drop_last()); assert(s.drop_last().push(s.last()) =~= s); } }

//@canary
} // verus!
fn main() {}
