// Unit `wire_codec` (C15): the gossip message codec of radicle-node, both directions, against one ghost function
// per type: `enc(v)` -- the bytes of `v` on the wire.
//   Encode::encode   writes exactly enc(self) and returns its length                       (E)
//   Decode::decode   Ok(v) only by consuming exactly the bytes wire(v)  [== enc(v)]        (D: unique encoding)
// (D) is the half of C15 the round-trip tests cannot reach: it starts from arbitrary bytes that decode.
// Real code: Encode/Decode impls of crates/radicle-node/src/wire.rs, wire/message.rs; serialize / deserialize.
use vstd::prelude::*;
use std::marker::PhantomData;
use std::ops::Deref;
//@include _prelude.rs

verus! {
//@include _panic.rs
//@include _io.rs
//@include _iow.rs

// ---- environment ----------------------------------------------------------------------------------------------
pub mod io { pub use std::io::{Read, Write, Error, ErrorKind, Result}; pub use crate::Cursor; }
pub mod mem {
    use vstd::prelude::*;
    /// stand-in for core::mem::size_of (ASSUMED: size of uN is N/8, size of [u8; N] is N)
    pub trait VxSized { spec fn sz() -> usize; }
    impl VxSized for u8 { open spec fn sz() -> usize { 1 } }
    impl VxSized for u16 { open spec fn sz() -> usize { 2 } }
    impl VxSized for u32 { open spec fn sz() -> usize { 4 } }
    impl VxSized for u64 { open spec fn sz() -> usize { 8 } }
    impl<const N: usize> VxSized for [u8; N] { open spec fn sz() -> usize { N } }
    #[verifier::external_body]
    pub fn size_of<T: VxSized>() -> (r: usize) ensures r == T::sz() { core::mem::size_of::<T>() }
}
pub struct NetworkEndian;
/// big-endian byte strings of the fixed-width integers (from the statement's wire format: network byte order)
pub open spec fn be_u8(x: u8) -> Seq<u8> { seq![x] }
pub open spec fn be_u16(x: u16) -> Seq<u8> { seq![(x / 256) as u8, (x % 256) as u8] }
pub open spec fn be_u32(x: u32) -> Seq<u8> { seq![(x / 16777216) as u8, (x / 65536 % 256) as u8, (x / 256 % 256) as u8, (x % 256) as u8] }
pub open spec fn be_u64(x: u64) -> Seq<u8> { be_u32((x / 4294967296) as u32) + be_u32((x % 4294967296) as u32) }
/// stand-in for the `byteorder` crate (external): big-endian reads/writes over the stream models.
pub trait ReadBytesExt: std::io::Read {
    /// ASSUMED (byteorder): read_uN::<NetworkEndian> consumes N/8 bytes which are the big-endian bytes of the result
    fn read_u8(&mut self) -> (r: Result<u8, std::io::Error>)
        ensures r is Ok ==> (*old(self)).rem() =~= be_u8(r->Ok_0) + (*final(self)).rem(), r is Err ==> is_eof_kind(r->Err_0);
    fn read_u16<B>(&mut self) -> (r: Result<u16, std::io::Error>)
        ensures r is Ok ==> (*old(self)).rem() =~= be_u16(r->Ok_0) + (*final(self)).rem(), r is Err ==> is_eof_kind(r->Err_0);
    fn read_u32<B>(&mut self) -> (r: Result<u32, std::io::Error>)
        ensures r is Ok ==> (*old(self)).rem() =~= be_u32(r->Ok_0) + (*final(self)).rem(), r is Err ==> is_eof_kind(r->Err_0);
    fn read_u64<B>(&mut self) -> (r: Result<u64, std::io::Error>)
        ensures r is Ok ==> (*old(self)).rem() =~= be_u64(r->Ok_0) + (*final(self)).rem(), r is Err ==> is_eof_kind(r->Err_0);
}
impl<R: std::io::Read + ?Sized> ReadBytesExt for R {
    #[verifier::external_body] fn read_u8(&mut self) -> (r: Result<u8, std::io::Error>) { unimplemented!() }
    #[verifier::external_body] fn read_u16<B>(&mut self) -> (r: Result<u16, std::io::Error>) { unimplemented!() }
    #[verifier::external_body] fn read_u32<B>(&mut self) -> (r: Result<u32, std::io::Error>) { unimplemented!() }
    #[verifier::external_body] fn read_u64<B>(&mut self) -> (r: Result<u64, std::io::Error>) { unimplemented!() }
}
pub trait WriteBytesExt: std::io::Write {
    /// ASSUMED (byteorder): write_uN::<NetworkEndian> appends the big-endian bytes
    fn write_u8(&mut self, x: u8) -> (r: Result<(), std::io::Error>)
        ensures r is Ok ==> (*final(self)).written() =~= (*old(self)).written() + be_u8(x) && (*final(self)).written().len() <= usize::MAX;
    fn write_u16<B>(&mut self, x: u16) -> (r: Result<(), std::io::Error>)
        ensures r is Ok ==> (*final(self)).written() =~= (*old(self)).written() + be_u16(x) && (*final(self)).written().len() <= usize::MAX;
    fn write_u32<B>(&mut self, x: u32) -> (r: Result<(), std::io::Error>)
        ensures r is Ok ==> (*final(self)).written() =~= (*old(self)).written() + be_u32(x) && (*final(self)).written().len() <= usize::MAX;
    fn write_u64<B>(&mut self, x: u64) -> (r: Result<(), std::io::Error>)
        ensures r is Ok ==> (*final(self)).written() =~= (*old(self)).written() + be_u64(x) && (*final(self)).written().len() <= usize::MAX;
}
impl<W: std::io::Write + ?Sized> WriteBytesExt for W {
    #[verifier::external_body] fn write_u8(&mut self, x: u8) -> (r: Result<(), std::io::Error>) { unimplemented!() }
    #[verifier::external_body] fn write_u16<B>(&mut self, x: u16) -> (r: Result<(), std::io::Error>) { unimplemented!() }
    #[verifier::external_body] fn write_u32<B>(&mut self, x: u32) -> (r: Result<(), std::io::Error>) { unimplemented!() }
    #[verifier::external_body] fn write_u64<B>(&mut self, x: u64) -> (r: Result<(), std::io::Error>) { unimplemented!() }
}

// ---- fixed-size identifiers (external crates: radicle-crypto, git2) ------------------------------------------------
#[derive(Clone, Copy, PartialEq, Eq, Debug)] pub struct PublicKey(pub [u8; 32]);
impl Deref for PublicKey { type Target = [u8; 32]; fn deref(&self) -> (r: &[u8; 32]) ensures *r == self.0 { &self.0 } }
impl From<[u8; 32]> for PublicKey { fn from(b: [u8; 32]) -> (r: PublicKey) ensures r == PublicKey(b) { PublicKey(b) } }
impl vstd::std_specs::convert::FromSpecImpl<[u8; 32]> for PublicKey { open spec fn obeys_from_spec() -> bool { true } open spec fn from_spec(b: [u8; 32]) -> PublicKey { PublicKey(b) } }
pub type NodeId = PublicKey;
#[derive(Clone, Copy, PartialEq, Eq, Debug)] pub struct Signature(pub [u8; 64]);
impl Deref for Signature { type Target = [u8; 64]; fn deref(&self) -> (r: &[u8; 64]) ensures *r == self.0 { &self.0 } }
impl From<[u8; 64]> for Signature { fn from(b: [u8; 64]) -> (r: Signature) ensures r == Signature(b) { Signature(b) } }
impl vstd::std_specs::convert::FromSpecImpl<[u8; 64]> for Signature { open spec fn obeys_from_spec() -> bool { true } open spec fn from_spec(b: [u8; 64]) -> Signature { Signature(b) } }
pub mod git {
    use vstd::prelude::*;
    pub mod raw {
        use vstd::prelude::*;
        #[derive(Clone, Copy, PartialEq, Eq, Debug)] pub struct Oid(pub [u8; 20]);
        #[derive(Debug)] pub struct Error;
        impl Oid {
            /// ASSUMED (git2): from_bytes succeeds exactly on 20 bytes and keeps them
            #[verifier::external_body]
            pub fn from_bytes(b: &[u8]) -> (r: Result<Oid, Error>) ensures (r is Ok) == (b@.len() == 20), r is Ok ==> r->Ok_0.0@ == b@ { unimplemented!() }
        }
    }
    #[derive(Clone, Copy, PartialEq, Eq, Debug)] pub struct Oid(pub raw::Oid);
    impl Oid {
        /// ASSUMED (git2): as_bytes is the 20 raw bytes
        #[verifier::external_body]
        pub fn as_bytes(&self) -> (r: &[u8]) ensures r@ == self.0.0@ { unimplemented!() }
    }
    impl From<raw::Oid> for Oid { fn from(o: raw::Oid) -> (r: Oid) ensures r == Oid(o) { Oid(o) } }
    impl vstd::std_specs::convert::FromSpecImpl<raw::Oid> for Oid { open spec fn obeys_from_spec() -> bool { true } open spec fn from_spec(o: raw::Oid) -> Oid { Oid(o) } }
}
#[derive(Clone, Copy, PartialEq, Eq, Debug)] pub struct RepoId(pub git::Oid);
impl Deref for RepoId { type Target = git::Oid; fn deref(&self) -> (r: &git::Oid) ensures *r == self.0 { &self.0 } }
impl From<git::Oid> for RepoId { fn from(o: git::Oid) -> (r: RepoId) ensures r == RepoId(o) { RepoId(o) } }
impl vstd::std_specs::convert::FromSpecImpl<git::Oid> for RepoId { open spec fn obeys_from_spec() -> bool { true } open spec fn from_spec(o: git::Oid) -> RepoId { RepoId(o) } }
#[derive(Clone, Copy, PartialEq, Eq, Debug)] pub struct Timestamp(pub u64);
impl Deref for Timestamp { type Target = u64; fn deref(&self) -> (r: &u64) ensures *r == self.0 { &self.0 } }
impl TryFrom<u64> for Timestamp {
    type Error = u64;
    /// radicle::node::timestamp (not extracted): Ok exactly for values <= i64::MAX
    fn try_from(u: u64) -> (r: Result<Timestamp, u64>) ensures (r is Ok) == (u <= 9223372036854775807), r is Ok ==> r->Ok_0 == Timestamp(u), r is Err ==> r->Err_0 == u
    { if u <= 9223372036854775807 { Ok(Timestamp(u)) } else { Err(u) } }
}
impl vstd::std_specs::convert::TryFromSpecImpl<u64> for Timestamp {
    open spec fn obeys_try_from_spec() -> bool { true }
    open spec fn try_from_spec(u: u64) -> Result<Timestamp, u64> { if u <= 9223372036854775807 { Ok(Timestamp(u)) } else { Err(u) } }
}
#[derive(Clone, Copy, PartialEq, Eq, Debug)] pub struct RefsAt { pub remote: PublicKey, pub at: git::Oid }

/// stand-in for `slice.iter()` (std's slice::Iter): position + the slice
pub struct VxSliceIter<'a, T> { pub s: &'a [T], pub pos: usize }
impl<'a, T> VxSliceIter<'a, T> {
    pub fn next(&mut self) -> (r: Option<&'a T>)
        requires old(self).pos <= old(self).s@.len()
        ensures final(self).s == old(self).s,
            old(self).pos < old(self).s@.len() ==> r == Some(&old(self).s@[old(self).pos as int]) && final(self).pos == old(self).pos + 1,
            old(self).pos >= old(self).s@.len() ==> r is None && final(self).pos == old(self).pos,
    { if self.pos < self.s.len() { let x = &self.s[self.pos]; self.pos = self.pos + 1; Some(x) } else { None } }
}
pub fn vx_iter<'a, T>(s: &'a [T]) -> (r: VxSliceIter<'a, T>) ensures r.s == s, r.pos == 0 { VxSliceIter { s, pos: 0 } }

/// concatenated encodings of a sequence of items (from the statement: length prefix, then the items in order)
pub open spec fn flat_enc<T: Encode>(s: Seq<T>) -> Seq<u8> decreases s.len() { if s.len() == 0 { Seq::empty() } else { flat_enc(s.drop_last()) + s.last().enc() } }
pub open spec fn flat_wire<T: Decode>(s: Seq<T>) -> Seq<u8> decreases s.len() { if s.len() == 0 { Seq::empty() } else { flat_wire(s.drop_last()) + T::wire(s.last()) } }
pub mod vx_lem {
    use vstd::prelude::*;
    use crate::*;
    pub broadcast proof fn lemma_flat_enc_push<T: Encode>(s: Seq<T>, x: T)
        ensures #[trigger] flat_enc(s.push(x)) == flat_enc(s) + x.enc()
    { assert(s.push(x).drop_last() =~= s); }
    pub broadcast proof fn lemma_flat_wire_push<T: Decode>(s: Seq<T>, x: T)
        ensures #[trigger] flat_wire(s.push(x)) == flat_wire(s) + T::wire(x)
    { assert(s.push(x).drop_last() =~= s); }
}
/// ASSUMED (alloc): the capacity recorded by a Vec (std guarantees `with_capacity(n).capacity() >= n`; RawVec records exactly n
/// for non-zero-sized element types, which every wire item type is)
pub uninterp spec fn vec_cap<T>(v: Vec<T>) -> usize;
pub struct FromUtf8Error;
pub mod fmt { pub struct Error; }
pub mod node { pub struct AliasError; }
pub mod tor { pub struct OnionAddrDecodeError; }

//@extract crates/radicle-node/src/wire.rs
//@  item type Size
//@  item enum Error
//@    derive
//@    thiserror_from
//@  trait Encode
//@    add
//@      /// ghost: the bytes of this value on the wire
//@      spec fn enc(&self) -> Seq<u8>;
//@    fn encode
//@      ret r
//@      ensures
//@        r is Ok ==> (*final(writer)).written() =~= (*old(writer)).written() + self.enc() //[C15]
//@        r is Ok ==> r->Ok_0 == self.enc().len() //[C15]
//@        r is Ok ==> (*final(writer)).written().len() <= usize::MAX
//@  trait Decode
//@    add
//@      /// ghost: the only byte string that decodes to `v`
//@      spec fn wire(v: Self) -> Seq<u8>;
//@    fn decode
//@      ret r
//@      ensures
//@        r is Ok ==> (*old(reader)).rem() =~= Self::wire(r->Ok_0) + (*final(reader)).rem() //[C15]
//@  impl Encode for u8
//@    add
//@      open spec fn enc(&self) -> Seq<u8> { be_u8(*self) }
//@    fn encode
//@      desugar_try
//@      head
//@        proof { std_from_refl::<io::Error>(); }
//@  impl Encode for u16
//@    add
//@      open spec fn enc(&self) -> Seq<u8> { be_u16(*self) }
//@    fn encode
//@      desugar_try
//@      head
//@        proof { std_from_refl::<io::Error>(); }
//@  impl Encode for u32
//@    add
//@      open spec fn enc(&self) -> Seq<u8> { be_u32(*self) }
//@    fn encode
//@      desugar_try
//@      head
//@        proof { std_from_refl::<io::Error>(); }
//@  impl Encode for u64
//@    add
//@      open spec fn enc(&self) -> Seq<u8> { be_u64(*self) }
//@    fn encode
//@      desugar_try
//@      head
//@        proof { std_from_refl::<io::Error>(); }
//@  impl <const T: usize> Encode for [u8; T]
//@    add
//@      open spec fn enc(&self) -> Seq<u8> { self@ }
//@    fn encode
//@      desugar_try
//@      head
//@        proof { std_from_refl::<io::Error>(); }
//@  impl Decode for u8
//@    add
//@      open spec fn wire(v: Self) -> Seq<u8> { be_u8(v) }
//@    fn decode
//@      body_sub reader\.read_u8\(\)\.map_err\(Error::from\) => reader.read_u8().map_err(|e| -> (o: Error) ensures o == Error::Io(e) { Error::from(e) })
//@  impl Decode for u16
//@    add
//@      open spec fn wire(v: Self) -> Seq<u8> { be_u16(v) }
//@    fn decode
//@      body_sub reader\.read_u16::<NetworkEndian>\(\)\.map_err\(Error::from\) => reader.read_u16::<NetworkEndian>().map_err(|e| -> (o: Error) ensures o == Error::Io(e) { Error::from(e) })
//@  impl Decode for u32
//@    add
//@      open spec fn wire(v: Self) -> Seq<u8> { be_u32(v) }
//@    fn decode
//@      body_sub reader\.read_u32::<NetworkEndian>\(\)\.map_err\(Error::from\) => reader.read_u32::<NetworkEndian>().map_err(|e| -> (o: Error) ensures o == Error::Io(e) { Error::from(e) })
//@  impl Decode for u64
//@    add
//@      open spec fn wire(v: Self) -> Seq<u8> { be_u64(v) }
//@    fn decode
//@      body_sub reader\.read_u64::<NetworkEndian>\(\)\.map_err\(Error::from\) => reader.read_u64::<NetworkEndian>().map_err(|e| -> (o: Error) ensures o == Error::Io(e) { Error::from(e) })
//@  impl <const N: usize> Decode for [u8; N]
//@    add
//@      open spec fn wire(v: Self) -> Seq<u8> { v@ }
//@    fn decode
//@      desugar_try
//@  impl Encode for PublicKey
//@    add
//@      open spec fn enc(&self) -> Seq<u8> { self.0@ }
//@    fn encode
//@  impl <T> Encode for &[T] where T: Encode,
//@    add
//@      open spec fn enc(&self) -> Seq<u8> { be_u16(self@.len() as u16) + flat_enc(self@) }
//@    fn encode
//@      attr #[verifier::exec_allows_no_decreases_clause]
//@      desugar_try
//@      desugar_for
//@      body_sub self\.iter\(\) => vx_iter(self)
//@      head
//@        proof { std_from_refl::<io::Error>(); }
//@        broadcast use vx_lem::lemma_flat_enc_push;
//@      loop 1
//@        invariant
//@          __vx_it1.s == *self && __vx_it1.pos <= self@.len()
//@          n == 2 + flat_enc(self@.take(__vx_it1.pos as int)).len()
//@          (*writer).written() =~= (*old(writer)).written() + be_u16(self@.len() as u16) + flat_enc(self@.take(__vx_it1.pos as int))
//@          (*writer).written().len() <= usize::MAX
//@        ensures
//@          __vx_it1.pos == self@.len()
//@      hint 1 n \+= \(match item\.encode
//@        assert(self@.take(__vx_it1.pos as int) =~= self@.take(__vx_it1.pos - 1).push(*item));
//@        vx_lem::lemma_flat_enc_push(self@.take(__vx_it1.pos - 1), *item);
//@      hint 1 Ok\(n\)\s*\}\s*$
//@        assert(self@.take(self@.len() as int) =~= self@);
//@  impl Encode for RepoId
//@    add
//@      open spec fn enc(&self) -> Seq<u8> { self.0.enc() }
//@    fn encode
//@  impl Encode for Signature
//@    add
//@      open spec fn enc(&self) -> Seq<u8> { self.0@ }
//@    fn encode
//@  impl Encode for git::Oid
//@    add
//@      open spec fn enc(&self) -> Seq<u8> { be_u16(20) + self.0.0@ }
//@    fn encode
//@      head
//@        proof { lemma_flat_bytes(self.0.0@); }
//@  impl Decode for PublicKey
//@    add
//@      open spec fn wire(v: Self) -> Seq<u8> { v.0@ }
//@    fn decode
//@      desugar_try
//@      head
//@        proof { std_from_refl::<Error>(); }
//@  impl Decode for git::Oid
//@    add
//@      open spec fn wire(v: Self) -> Seq<u8> { be_u16(20) + v.0.0@ }
//@    fn decode
//@      desugar_try
//@      # ASSUMED: git2's raw Oid is 20 bytes (the std intrinsic cannot be evaluated in a const by Verus)
//@      body_sub mem::size_of::<git::raw::Oid>\(\) => 20
//@      body_sub \.expect\("the buffer is exactly the right size"\) => .unwrap()
//@      head
//@        proof { std_from_refl::<Error>(); }
//@  impl Decode for Signature
//@    add
//@      open spec fn wire(v: Self) -> Seq<u8> { v.0@ }
//@    fn decode
//@      desugar_try
//@      head
//@        proof { std_from_refl::<Error>(); }
//@  impl Decode for RepoId
//@    add
//@      open spec fn wire(v: Self) -> Seq<u8> { git::Oid::wire(v.0) }
//@    fn decode
//@      desugar_try
//@      head
//@        proof { std_from_refl::<Error>(); }
//@  impl Encode for RefsAt
//@    add
//@      open spec fn enc(&self) -> Seq<u8> { self.remote.enc() + self.at.enc() }
//@    fn encode
//@      desugar_try
//@      head
//@        proof { std_from_refl::<io::Error>(); }
//@  impl Decode for RefsAt
//@    add
//@      open spec fn wire(v: Self) -> Seq<u8> { PublicKey::wire(v.remote) + git::Oid::wire(v.at) }
//@    fn decode
//@      desugar_try
//@      head
//@        proof { std_from_refl::<Error>(); }
//@  impl Encode for Timestamp
//@    add
//@      open spec fn enc(&self) -> Seq<u8> { be_u64(self.0) }
//@    fn encode
//@  impl Decode for Timestamp
//@    add
//@      open spec fn wire(v: Self) -> Seq<u8> { be_u64(v.0) }
//@    fn decode
//@      desugar_try
//@      body_sub \.map_err\(Error::InvalidTimestamp\) => .map_err(|e| -> (o: Error) { Error::InvalidTimestamp(e) })
//@      head
//@        proof { std_from_refl::<Error>(); }
//@end

/// a byte slice encodes as its length-prefixed bytes: flat_enc of bytes is the bytes themselves
pub proof fn lemma_flat_bytes(s: Seq<u8>) ensures flat_enc(s) =~= s decreases s.len()
{ if s.len() > 0 { lemma_flat_bytes(s.drop_last()); assert(s.drop_last().push(s.last()) =~= s); } }

//@canary
} // verus!
fn main() {}
