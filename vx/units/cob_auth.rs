// Unit `cob_auth` (C07): issue authorization rules and the Allow/Deny/Unknown dispatch.
// Real code: Issue::authorization, Issue::op_action (crates/radicle/src/cob/issue.rs),
// Authorization (cob/common.rs).
#![feature(allocator_api)]
use vstd::prelude::*;
use std::collections::{BTreeMap, BTreeSet};
//@include _prelude.rs

verus! {
//@include _panic.rs

// ---- environment (declarations only) ------------------------------------------------------------------
#[derive(Clone, Copy, PartialEq, Eq, PartialOrd, Ord, Debug)] pub struct ActorId(pub [u8; 32]);
#[derive(Clone, Copy, PartialEq, Eq, PartialOrd, Ord, Debug)] pub struct Did(pub ActorId);
impl<'a> From<&'a ActorId> for Did { fn from(k: &'a ActorId) -> (r: Did) ensures r == Did(*k) { Did(*k) } }
impl<'a> vstd::std_specs::convert::FromSpecImpl<&'a ActorId> for Did { open spec fn obeys_from_spec() -> bool { true } open spec fn from_spec(k: &'a ActorId) -> Did { Did(*k) } }
impl Did { pub fn as_key(&self) -> (r: &ActorId) ensures *r == self.0 { &self.0 } }
#[derive(Clone, Copy, PartialEq, Eq, PartialOrd, Ord, Debug)] pub struct CommentId(pub [u8; 20]);
#[derive(Clone, Copy, PartialEq, Eq, Debug)] pub struct EntryId(pub [u8; 20]);
#[derive(Clone, Copy, PartialEq, Eq, Debug)] pub struct Timestamp(pub u64);
#[derive(Clone, PartialEq, Eq, PartialOrd, Ord, Debug)] pub struct Label(pub u32);
#[derive(Clone, PartialEq, Eq, Debug)] pub struct Embed<T>(pub T);
#[derive(Clone, PartialEq, Eq, Debug)] pub struct Uri;
#[derive(Clone, PartialEq, Eq, Debug)] pub struct Reaction;
#[derive(Clone, Copy, PartialEq, Eq, Debug)] pub enum CloseReason { Other, Solved }
/// ASSUMED (derive on byte-array newtypes / lawful Ord): structural equality, lawful ordering.
#[verifier::external_body]
pub proof fn ids_lawful()
    ensures <ActorId as vstd::std_specs::cmp::PartialEqSpec>::obeys_eq_spec(),
        forall|a: ActorId, b: ActorId| #[trigger] vstd::std_specs::cmp::PartialEqSpec::eq_spec(&a, &b) <==> a == b,
        vstd::laws_cmp::obeys_cmp_spec::<CommentId>(),
{}
/// ASSUMED (alloc): BTreeSet::{is_subset, is_superset, is_empty-free} relate the set views
pub assume_specification<T: Ord, A: std::alloc::Allocator + Clone>[BTreeSet::<T, A>::is_subset](a: &BTreeSet<T, A>, b: &BTreeSet<T, A>) -> (r: bool)
    ensures vstd::laws_cmp::obeys_cmp_spec::<T>() ==> r == a@.subset_of(b@);
pub assume_specification<T: Ord, A: std::alloc::Allocator + Clone>[BTreeSet::<T, A>::is_superset](a: &BTreeSet<T, A>, b: &BTreeSet<T, A>) -> (r: bool)
    ensures vstd::laws_cmp::obeys_cmp_spec::<T>() ==> r == b@.subset_of(a@);
/// stand-in for `a == &b` on BTreeSet (PartialEq for BTreeSet is outside vstd): ASSUMED to be set equality
#[verifier::external_body]
pub fn vx_set_eq<T>(a: &BTreeSet<T>, b: &BTreeSet<T>) -> (r: bool) ensures r == (a@ == b@) { unimplemented!() }
pub struct Author { pub id: Did }
impl Author { pub fn id(&self) -> (r: &Did) ensures *r == self.id { &self.id } }
pub struct Comment { pub author: ActorId }
impl Comment { pub fn author(&self) -> (r: ActorId) ensures r == self.author { self.author } }
pub struct Thread { pub comments: BTreeMap<CommentId, Option<Comment>> }
pub mod thread { #[derive(Debug)] pub enum Error { Missing(crate::CommentId) } }
pub struct Doc { pub opaque: u64 }
/// the delegates of the identity document the action refers to
pub uninterp spec fn delegate(doc: Doc, did: Did) -> bool;
impl Doc {
    /// ASSUMED here, proved in unit `identity`: Doc::is_delegate is membership in the delegate list
    #[verifier::external_body]
    pub fn is_delegate(&self, did: &Did) -> (r: bool) ensures r == delegate(*self, *did) { unimplemented!() }
}
pub trait ReadRepository {}
pub mod cob { pub struct Entry; }
#[derive(Debug)] pub enum Error { Thread(thread::Error), NotAuthorized(ActorId, Action), Other }
impl From<thread::Error> for Error { fn from(e: thread::Error) -> Self { Error::Thread(e) } }
impl vstd::std_specs::convert::FromSpecImpl<thread::Error> for Error { open spec fn obeys_from_spec() -> bool { true } open spec fn from_spec(e: thread::Error) -> Self { Error::Thread(e) } }

//@extract crates/radicle/src/cob/common.rs
//@  item enum Authorization
//@  impl From<bool> for Authorization
//@    fn from
//@      ret r
//@      ensures
//@        r == (if value { Authorization::Allow } else { Authorization::Deny })
//@end
impl vstd::std_specs::convert::FromSpecImpl<bool> for Authorization {
    open spec fn obeys_from_spec() -> bool { true }
    open spec fn from_spec(v: bool) -> Self { if v { Authorization::Allow } else { Authorization::Deny } }
}

//@extract crates/radicle/src/cob/issue.rs
//@  item enum State
//@    derive Debug, Default, Clone, Copy, PartialEq, Eq
//@  item enum Action
//@    derive Debug, PartialEq, Eq, Clone
//@  item struct Issue
//@    fields assignees, title, state, labels, thread
//@  impl Issue
//@    add
//@      /// the author of the issue = the author of its first comment (ghost)
//@      pub uninterp spec fn author_spec(self) -> ActorId;
//@      /// stand-in for Issue::author (iterator chain over the thread): ASSUMED to return `author_spec`
//@      #[verifier::external_body]
//@      pub fn author(&self) -> (r: Author) ensures r.id == Did(self.author_spec()) { unimplemented!() }
//@      /// C07, from the statement: when may a NON-delegate's action be allowed
//@      pub open spec fn may(self, action: Action, actor: ActorId) -> bool {
//@          match action {
//@              // assignees and labels change only through delegates (a no-op is tolerated)
//@              Action::Assign { assignees } => assignees@ == self.assignees@,
//@              Action::Label { labels } => labels@ == self.labels@,
//@              // title and lifecycle change only through the object author
//@              Action::Edit { .. } => actor == self.author_spec(),
//@              Action::Lifecycle { .. } => actor == self.author_spec(),
//@              // anyone may comment or react
//@              Action::Comment { .. } => true,
//@              Action::CommentReact { .. } => true,
//@              // a comment is edited or redacted only by its author
//@              Action::CommentEdit { id, .. } => self.thread.comments@.contains_key(id) && self.thread.comments@[id] is Some && self.thread.comments@[id]->Some_0.author == actor,
//@              Action::CommentRedact { id } => self.thread.comments@.contains_key(id) && self.thread.comments@[id] is Some && self.thread.comments@[id]->Some_0.author == actor,
//@          }
//@      }
//@    fn authorization
//@      desugar_try
//@      ret r
//@      body_sub assignees == &self\.assignees => vx_set_eq(assignees, &self.assignees)
//@      body_sub labels == &self\.labels => vx_set_eq(labels, &self.labels)
//@      ensures
//@        r is Ok && r->Ok_0 == Authorization::Allow ==> delegate(*doc, Did(*actor)) || self.may(*action, *actor)
//@        delegate(*doc, Did(*actor)) ==> r is Ok && r->Ok_0 == Authorization::Allow
//@      head
//@        proof { ids_lawful(); }
//@  impl Issue
//@    add
//@      /// SINK: applies the action to the issue. Precondition = the action was authorized.
//@      #[verifier::external_body]
//@      fn action<R: ReadRepository>(&mut self, action: Action, entry: EntryId, author: ActorId, timestamp: Timestamp, concurrent: &[&cob::Entry], doc: &Doc, repo: &R) -> (r: Result<(), Error>)
//@          requires delegate(*doc, Did(author)) || old(self).may(action, author)
//@      { unimplemented!() }
//@    fn op_action
//@      desugar_try
//@      ret r
//@      ensures
//@        # an action that is neither by a delegate nor allowed by the rules has no effect
//@        !(delegate(*doc, Did(author)) || old(self).may(action, author)) ==> *final(self) == *old(self)
//@end

//@canary
} // verus!
fn main() {}
