// Unit `identity` (C19, C04, C11, C12): identity document validity, delegate/visibility predicates,
// signature gate. Real code from crates/radicle/src/identity/{doc.rs,did.rs}.
use vstd::prelude::*;
use std::collections::{BTreeMap, BTreeSet};
//@include _prelude.rs

verus! {
//@include _panic.rs

// ---- environment (declarations only) -------------------------------------------------------
//@include _std_nonzero.rs
//@include _nonempty.rs
pub mod crypto {
    use vstd::prelude::*;
    /// opaque stand-in for radicle_crypto::PublicKey (32-byte ed25519 key)
    #[derive(Debug, Clone, Copy, PartialEq, Eq, PartialOrd, Ord, Hash)]
    pub struct PublicKey(pub [u8; 32]);
    #[derive(Debug, Clone, Copy, PartialEq, Eq)]
    pub struct Signature(pub [u8; 64]);
    pub struct SigError;
    impl PublicKey {
        /// ASSUMED (ed25519): `verify` succeeds exactly when `sig_ok(key, msg, sig)` (uninterpreted).
        #[verifier::external_body]
        pub fn verify(&self, msg: &[u8], sig: &Signature) -> (r: Result<(), SigError>)
            ensures r is Ok <==> super::sig_ok(*self, msg@, *sig)
        { unimplemented!() }
    }
}
pub use crypto::{PublicKey, Signature};
pub uninterp spec fn sig_ok(key: PublicKey, msg: Seq<u8>, sig: Signature) -> bool;

/// opaque stand-in for git Oid (20 bytes)
#[derive(Clone, Copy, PartialEq, Eq)]
pub struct Oid(pub [u8; 20]);
impl Oid {
    #[verifier::external_body]
    pub fn as_bytes(&self) -> (r: &[u8]) ensures r@ == self.0@ { unimplemented!() }
}
#[derive(Debug, Clone)] pub struct Version(u32);
pub mod serde_json { #[derive(Debug)] pub struct Error; }
pub mod git { #[derive(Debug)] pub struct Error; }
pub mod git2 { #[derive(Debug)] pub struct Error; }
#[derive(Debug, Clone, PartialEq, Eq, PartialOrd, Ord)] pub struct PayloadId(u32);
#[derive(Debug, Clone)] pub struct Payload(u32);
pub const MAX_DELEGATES: usize = 255;

//@extract crates/radicle/src/identity/did.rs
//@  item struct Did
//@    derive Debug, PartialEq, Eq, PartialOrd, Ord, Clone, Copy
//@  impl From<&crypto::PublicKey> for Did
//@    fn from
//@      ret r
//@      ensures
//@        r == Did::of(*key)
//@  impl From<crypto::PublicKey> for Did
//@    fn from
//@      ret r
//@      ensures
//@        r == Did::of(key)
//@end
impl Did {
    pub closed spec fn key(self) -> PublicKey { self.0 }
    pub closed spec fn of(k: PublicKey) -> Did { Did(k) }
    pub proof fn lemma_of(k: PublicKey) ensures Did::of(k).key() == k {}
}
impl<'a> vstd::std_specs::convert::FromSpecImpl<&'a crypto::PublicKey> for Did {
    open spec fn obeys_from_spec() -> bool { true }
    open spec fn from_spec(k: &'a crypto::PublicKey) -> Did { Did::of(*k) }
}
impl vstd::std_specs::convert::FromSpecImpl<crypto::PublicKey> for Did {
    open spec fn obeys_from_spec() -> bool { true }
    open spec fn from_spec(k: crypto::PublicKey) -> Did { Did::of(k) }
}
/// ASSUMED (rustc derive(PartialEq) on Did(PublicKey) and on PublicKey([u8;32])): structural equality.
pub broadcast axiom fn did_eq_structural(a: Did, b: Did)
    ensures #[trigger] vstd::std_specs::cmp::PartialEqSpec::eq_spec(&a, &b) == (a == b);

/// ASSUMED (core): `<[T]>::contains(x)` is `iter().any(|e| e == x)`: membership when `==` is structural
pub assume_specification<T: PartialEq>[<[T]>::contains](s: &[T], x: &T) -> (r: bool)
    ensures (forall|a: T, b: T| #[trigger] vstd::std_specs::cmp::PartialEqSpec::eq_spec(&a, &b) == (a == b)) ==> r == s@.contains(*x);
/// proved helper lemmas about Seq::push (broadcast where a lifted closure needs them)
pub mod vx_seq {
    use vstd::prelude::*;
    pub broadcast proof fn lemma_push_contains<T>(s: Seq<T>, x: T, d: T)
        ensures #[trigger] s.push(x).contains(d) <==> (s.contains(d) || d == x)
    {
        if s.contains(d) { let i = choose|i: int| 0 <= i < s.len() && s[i] == d; assert(s.push(x)[i] == d); }
        if d == x { assert(s.push(x)[s.len() as int] == d); }
    }
    pub broadcast proof fn lemma_push_no_dup<T>(s: Seq<T>, x: T)
        requires s.no_duplicates(), !s.contains(x)
        ensures #[trigger] s.push(x).no_duplicates()
    {}
}
/// std's `Iterator::try_fold` default body (`let mut accum = init; while let Some(x) = self.next() { accum = f(accum, x)?; }
/// try { accum }`), transcribed for `vec::IntoIter<Did>` with the lifted closure as `f`; verified, not assumed.
pub fn vx_try_fold_dids(v: Vec<Did>, init: Vec<Did>) -> (r: Result<Vec<Did>, DelegatesError>)
    requires init@.len() == 0
    ensures
        r is Ok ==> r->Ok_0@.no_duplicates() && r->Ok_0@.len() <= 255,
        r is Ok ==> forall|d: Did| r->Ok_0@.contains(d) <==> v@.contains(d),
{
    let mut accum = init;
    let mut i: usize = 0;
    while i < v.len()
        invariant
            i <= v.len(), accum@.no_duplicates(), accum@.len() <= 255,
            forall|d: Did| accum@.contains(d) <==> v@.subrange(0, i as int).contains(d),
        decreases v.len() - i
    {
        let x = v[i];
        proof {
            broadcast use vx_seq::lemma_push_contains;
            assert(v@.subrange(0, i as int + 1) =~= v@.subrange(0, i as int).push(x));
        }
        let ghost pre = v@.subrange(0, i as int);
        let ghost acc0 = accum@;
        match Delegates::vx_new_step(accum, x) { Ok(a) => { accum = a; } Err(e) => { return Err(e); } }
        i += 1;
        proof {
            assert(v@.subrange(0, i as int) == pre.push(x));
            assert forall|d: Did| accum@.contains(d) <==> v@.subrange(0, i as int).contains(d) by {
                vx_seq::lemma_push_contains(pre, x, d);
                assert(acc0.contains(d) <==> pre.contains(d));
            }
        }
    }
    proof { assert(v@.subrange(0, v@.len() as int) =~= v@); }
    Ok(accum)
}

/// ASSUMED (rustc derive(Ord) on Did(PublicKey([u8;32]))): the derived ordering is a lawful total order.
#[verifier::external_body]
pub proof fn did_ord_lawful() ensures vstd::laws_cmp::obeys_cmp_spec::<Did>() {}

//@extract crates/radicle/src/identity/doc.rs
//@  item struct DelegatesError
//@    derive Debug
//@  item struct ThresholdError
//@    derive Debug
//@  item enum DocError
//@    derive Debug
//@    thiserror_from
//@  item struct Delegates
//@    derive Debug, Clone
//@  impl Delegates
//@    add
//@      pub closed spec fn seq(self) -> Seq<Did> { self.0.view() }
//@      /// validity of a delegate set, from the statement: 1..=255 distinct delegates
//@      pub open spec fn wf(self) -> bool { 1 <= self.seq().len() <= 255 && self.seq().no_duplicates() }
//@    fn new
//@      ret r
//@      sig impl IntoIterator<Item = Did> => Vec<Did>
//@      # the try_fold closure is lifted (body verbatim) to `vx_new_step` so that it can carry a contract; the fold itself is
//@      # std's default `try_fold` body transcribed in `vx_try_fold_dids` below
//@      lift_closure vx_new_step \.try_fold\(Vec::<Did>::new\(\),
//@        sig (mut dids: Vec<Did>, did: Did) -> (r: Result<Vec<Did>, DelegatesError>)
//@        head
//@          broadcast use did_eq_structural, vx_seq::lemma_push_contains, vx_seq::lemma_push_no_dup;
//@        requires
//@          dids@.no_duplicates() && dids@.len() <= 255
//@        ensures
//@          r is Ok ==> r->Ok_0@.no_duplicates() && r->Ok_0@.len() <= 255 && r->Ok_0@.len() <= dids@.len() + 1
//@          r is Ok ==> forall|d: Did| r->Ok_0@.contains(d) <==> (dids@.contains(d) || d == did)
//@      body_sub (?s)delegates\s*\.into_iter\(\)\s*\.try_fold\(Vec::<Did>::new\(\), Self::vx_new_step => vx_try_fold_dids(delegates, Vec::<Did>::new()
//@      body_sub \.map\(Self\) => .map(|e| -> (o: Delegates) ensures o == Delegates(e) { Delegates(e) })
//@      ensures
//@        r is Ok ==> r->Ok_0.wf()
//@        r is Ok ==> forall|d: Did| r->Ok_0.seq().contains(d) <==> delegates@.contains(d)
//@    fn contains
//@      ret r
//@      ensures
//@        r == self.seq().contains(*did)
//@    fn len
//@      ret r
//@      ensures
//@        r == self.seq().len()
//@        r >= 1
//@  item struct Threshold
//@    derive Debug, Clone, Copy
//@  impl Threshold
//@    add
//@      pub closed spec fn val(self) -> usize { self.0.val() }
//@    fn new
//@      ret r
//@      # eta-expansion: Verus rejects a tuple-struct constructor used as a function value
//@      body_sub \.map\(Self\) => .map(|e| -> (o: Threshold) ensures o == Threshold(e) { Threshold(e) })
//@      ensures
//@        r is Ok <==> (1 <= t <= 255 && t <= delegates.seq().len())
//@        r is Ok ==> r->Ok_0.val() == t
//@  item enum Visibility
//@    derive Debug, Clone, Default
//@  item struct RawDoc
//@    derive Debug, Clone
//@  impl RawDoc
//@    fn verified
//@      ret r
//@      ensures
//@        r is Ok ==> r->Ok_0.valid()
//@        r is Ok ==> (forall|d: Did| r->Ok_0.delegates_seq().contains(d) <==> self.delegates@.contains(d))
//@        r is Ok ==> r->Ok_0.threshold_val() == self.threshold
//@        r is Ok ==> r->Ok_0.vis() == self.visibility
//@  item struct Doc
//@    derive Debug, Clone
//@  impl Doc
//@    add
//@      pub closed spec fn delegates_seq(self) -> Seq<Did> { self.delegates.seq() }
//@      pub closed spec fn threshold_val(self) -> usize { self.threshold.val() }
//@      pub closed spec fn vis(self) -> Visibility { self.visibility }
//@      /// statement (C19): 1..=255 distinct delegates, 1 <= threshold <= #delegates
//@      pub open spec fn valid(self) -> bool {
//@          &&& 1 <= self.delegates_seq().len() <= 255
//@          &&& self.delegates_seq().no_duplicates()
//@          &&& 1 <= self.threshold_val() <= self.delegates_seq().len()
//@      }
//@      pub open spec fn is_delegate_spec(self, did: Did) -> bool { self.delegates_seq().contains(did) }
//@      /// statement (C11/C12): public, or on the allow list, or a delegate
//@      pub open spec fn visible_to_spec(self, did: Did) -> bool {
//@          match self.vis() {
//@              Visibility::Public => true,
//@              Visibility::Private { allow } => allow@.contains(did) || self.is_delegate_spec(did),
//@          }
//@      }
//@    fn threshold
//@      ret r
//@      ensures
//@        r == self.threshold_val()
//@    fn delegates
//@      ret r
//@      ensures
//@        r.seq() == self.delegates_seq()
//@    fn is_delegate
//@      ret r
//@      ensures
//@        r == self.is_delegate_spec(*did)
//@    fn is_visible_to
//@      ret r
//@      head
//@        proof { did_ord_lawful(); }
//@      ensures
//@        r == self.visible_to_spec(*did)
//@    fn verify_signature
//@      ret r
//@      ensures
//@        r is Ok <==> (self.is_delegate_spec(Did::of(*key)) && sig_ok(*key, blob.0@, *signature))
//@    fn is_majority
//@      ret r
//@      ensures
//@        r <==> 2 * votes > self.delegates_seq().len()
//@    fn majority
//@      ret r
//@      ensures
//@        r == self.delegates_seq().len() / 2 + 1
//@        2 * r > self.delegates_seq().len()
//@end

/// ASSUMED stand-in for `impl From<Threshold> for usize { fn from(Threshold(t)) { t.get() } }`
/// (tuple-struct pattern in parameter position is rejected by the verus! macro; body is one call to NonZeroUsize::get).
impl From<Threshold> for usize {
    #[verifier::external_body]
    fn from(t: Threshold) -> (r: usize) ensures r == t.val() { unimplemented!() }
}
impl vstd::std_specs::convert::FromSpecImpl<Threshold> for usize {
    open spec fn obeys_from_spec() -> bool { true }
    open spec fn from_spec(t: Threshold) -> usize { t.val() }
}

//@canary
} // verus!
fn main() {}
