// Unit `worker_auth` (C12): the fetch responder of radicle-node serves repository data only after the
// authorization gate. Real code: Worker::is_authorized, Worker::_process (crates/radicle-node/src/worker.rs).
use vstd::prelude::*;
//@include _prelude.rs

verus! {
//@include _panic.rs
//@include _io.rs

// ---- environment (declarations only; arbitrary results unless a contract is stated) ---------------
pub mod io { pub use std::io::{Error, ErrorKind, Result}; }
#[derive(Clone, Copy, PartialEq, Eq, Debug)] pub struct NodeId(pub [u8; 32]);
#[derive(Clone, Copy, PartialEq, Eq, Debug)] pub struct RepoId(pub [u8; 20]);
#[derive(Clone, Copy, PartialEq, Eq, Debug)] pub struct Did(pub NodeId);
impl From<NodeId> for Did { fn from(n: NodeId) -> (r: Did) ensures r == Did(n) { Did(n) } }
impl vstd::std_specs::convert::FromSpecImpl<NodeId> for Did {
    open spec fn obeys_from_spec() -> bool { true }
    open spec fn from_spec(n: NodeId) -> Did { Did(n) }
}
#[derive(Clone, Copy, Debug)] pub struct StreamId(pub u64);
#[derive(Debug)] pub struct RefsAt;
pub struct Event;
pub struct Emitter<T>(pub T);
pub struct Handle;
pub mod chan { pub struct Receiver<T>(pub T); }
pub struct Task;
pub struct FetchConfig;
pub struct Duration;
pub struct ExitStatus;
pub mod notifications { pub struct StoreWriter; }
pub mod cob { pub mod cache { pub struct StoreWriter; } }
pub mod radicle {
    pub mod node { pub struct Database; pub mod policy { pub mod store { #[derive(Debug)] pub struct Error; } } }
    pub mod storage { #[derive(Debug)] pub struct Error; #[derive(Debug)] pub struct RepositoryError; }
    pub mod identity { #[derive(Debug)] pub struct DocError; }
}
pub mod radicle_fetch { pub mod policy { pub mod error { #[derive(Debug)] pub struct Policy; #[derive(Debug)] pub struct Blocked; } } }
pub mod fetch {
    #[derive(Debug)] pub struct FetchResult;
    pub mod error { #[derive(Debug)] pub struct Fetch; #[derive(Debug)] pub struct Handle; }
}

// -- ghost state of the node that the gate consults: seeding policy and identity document per repository
#[derive(Clone, Copy, PartialEq, Eq, Debug)]
pub enum SeedingPolicy { Allow, Block }
impl SeedingPolicy {
    /// ASSUMED (radicle::node::policy): is_block is the negation of the Allow variant.
    pub fn is_block(&self) -> (r: bool) ensures r == (*self == SeedingPolicy::Block) { matches!(self, SeedingPolicy::Block) }
    pub fn is_allow(&self) -> (r: bool) ensures r == (*self == SeedingPolicy::Allow) { matches!(self, SeedingPolicy::Allow) }
}
pub struct SeedPolicy { pub rid: RepoId, pub policy: SeedingPolicy }
pub uninterp spec fn policy_of(rid: RepoId) -> SeedingPolicy;
pub uninterp spec fn visible(rid: RepoId, did: Did) -> bool;
pub mod policy {
    use vstd::prelude::*;
    pub mod store { pub struct Read; }
    pub struct Config<T>(pub T);
    impl<T> Config<T> {
        /// ASSUMED: the policy store returns the node's seeding policy for `rid` (ghost `policy_of`) or an error.
        #[verifier::external_body]
        pub fn seed_policy(&self, rid: &crate::RepoId) -> (r: Result<crate::SeedPolicy, crate::radicle::node::policy::store::Error>)
            ensures r is Ok ==> r->Ok_0.policy == crate::policy_of(*rid)
        { unimplemented!() }
    }
}
pub struct DocAt { pub rid: RepoId }
impl DocAt {
    /// ASSUMED: Doc::is_visible_to for the document of `rid` is the visibility predicate (its definition --
    /// public, allow-listed or delegate -- is proved on the real code in unit `identity`).
    #[verifier::external_body]
    pub fn is_visible_to(&self, did: &Did) -> (r: bool) ensures r == visible(self.rid, *did) { unimplemented!() }
}
/// radicle::identity::Visibility, allow list abstracted
pub enum Visibility { Public, Private { allow: u8 } }
impl DocAt {
    /// ASSUMED: a public document is visible to everyone (Doc::is_visible_to, proved in unit `identity`)
    #[verifier::external_body]
    pub fn visibility(&self) -> (r: &Visibility) ensures *r is Public ==> forall|d: Did| visible(self.rid, d) { unimplemented!() }
    #[verifier::external_body]
    pub fn is_public(&self) -> (r: bool) ensures r ==> forall|d: Did| visible(self.rid, d) { unimplemented!() }
}
/// ASSUMED (core): Result::is_ok_and(f) is `match self { Ok(x) => f(x), Err(_) => false }`
pub assume_specification<T, E, F: FnOnce(T) -> bool>[Result::<T, E>::is_ok_and](r: Result<T, E>, f: F) -> (b: bool)
    requires r is Ok ==> f.requires((r->Ok_0,))
    ensures b ==> r is Ok && f.ensures((r->Ok_0,), true), !b && r is Ok ==> f.ensures((r->Ok_0,), false);
pub struct Repository { pub rid: RepoId }
impl Repository {
    /// ASSUMED: identity_doc() returns the current identity document of this repository or an error.
    #[verifier::external_body]
    pub fn identity_doc(&self) -> (r: Result<DocAt, radicle::storage::RepositoryError>)
        ensures r is Ok ==> r->Ok_0.rid == self.rid
    { unimplemented!() }
}
pub struct Storage;
impl Storage {
    /// ASSUMED: repository(rid) opens the repository named `rid` or fails.
    #[verifier::external_body]
    pub fn repository(&self, rid: RepoId) -> (r: Result<Repository, radicle::storage::RepositoryError>)
        ensures r is Ok ==> r->Ok_0.rid == rid
    { unimplemented!() }
}

/// From the statement: a request is served only if the repository is seeded (not blocked) and visible to the requester.
pub open spec fn authorized(remote: NodeId, rid: RepoId) -> bool {
    policy_of(rid) != SeedingPolicy::Block && visible(rid, Did(remote))
}

pub mod channels {
    pub struct ChannelsFlush;
    pub struct R; pub struct W;
    impl ChannelsFlush {
        #[verifier::external_body] pub fn timeout(&self) -> crate::Duration { unimplemented!() }
        #[verifier::external_body] pub fn split(&mut self) -> (R, W) { unimplemented!() }
    }
}
pub mod upload_pack {
    use vstd::prelude::*;
    use crate::*;
    pub mod pktline {
        pub struct GitRequest { pub repo: crate::RepoId }
        /// result arbitrary: which repository the header names is decided by the peer (header parsing: C13)
        #[verifier::external_body]
        pub fn git_request(reader: &mut crate::channels::R) -> crate::io::Result<GitRequest> { unimplemented!() }
    }
    /// SINK: runs `git upload-pack` in the repository named by `header.repo` and streams its data to `remote`.
    /// Its precondition is the property: data is sent only to an authorized requester of that repository.
    #[verifier::external_body]
    pub fn upload_pack(nid: &NodeId, remote: NodeId, storage: &Storage, emitter: &Emitter<Event>, header: &pktline::GitRequest,
        recv: channels::R, send: channels::W, timeout: Duration) -> (r: io::Result<ExitStatus>)
        requires authorized(remote, header.repo)
    { unimplemented!() }
}

//@extract crates/radicle-node/src/worker.rs
//@  item enum FetchError
//@    derive Debug
//@    thiserror_from
//@  item enum UploadError
//@    derive Debug
//@    thiserror_from
//@  item enum FetchRequest
//@    derive
//@  item enum FetchResult
//@    derive
//@  item struct Worker
//@    fields nid, storage, policies
//@  impl Worker
//@    add
//@      /// stand-in for the initiator side (outgoing fetch): not part of C12
//@      #[verifier::external_body]
//@      fn fetch(&mut self, rid: RepoId, remote: NodeId, refs_at: Option<Vec<RefsAt>>, channels: channels::ChannelsFlush, notifs: notifications::StoreWriter) -> Result<fetch::FetchResult, FetchError> { unimplemented!() }
//@    fn is_authorized
//@      desugar_try
//@      ret r
//@      ensures
//@        r is Ok ==> authorized(remote, rid)
//@    fn _process
//@end

//@canary
} // verus!
fn main() {}
