// Unit `fetch_run` (C01, C02): the validation loop and the threshold gate of a fetch.
// Real code: FetchState::run, FetchState::prune (crates/radicle-fetch/src/state.rs),
// DelegateStatus::{new, empty} (sigrefs.rs).
use vstd::prelude::*;
use std::collections::{BTreeMap, BTreeSet};
//@include _prelude.rs

verus! {
//@include _panic.rs

// ---- environment (declarations only) ----------------------------------------------------------------------
#[derive(Clone, Copy, PartialEq, Eq, PartialOrd, Ord, Debug)] pub struct PublicKey(pub [u8; 32]);
#[derive(Clone, Copy, PartialEq, Eq, Debug)] pub struct Oid(pub [u8; 20]);
#[derive(Clone, Copy, PartialEq, Eq, Debug)] pub struct Did(pub PublicKey);
impl From<PublicKey> for Did { fn from(k: PublicKey) -> (r: Did) ensures r == Did(k) { Did(k) } }
impl<'a> From<&'a PublicKey> for Did { fn from(k: &'a PublicKey) -> (r: Did) ensures r == Did(*k) { Did(*k) } }
impl<'a> vstd::std_specs::convert::FromSpecImpl<&'a PublicKey> for Did { open spec fn obeys_from_spec() -> bool { true } open spec fn from_spec(k: &'a PublicKey) -> Did { Did(*k) } }
impl vstd::std_specs::convert::FromSpecImpl<PublicKey> for Did { open spec fn obeys_from_spec() -> bool { true } open spec fn from_spec(k: PublicKey) -> Did { Did(k) } }
/// ASSUMED (derive(Ord) on a byte-array newtype): lawful order, so BTreeSet/BTreeMap are mathematical sets/maps
#[verifier::external_body]
pub proof fn keys_lawful() ensures vstd::laws_cmp::obeys_cmp_spec::<PublicKey>() {}
pub struct Instant;
impl Instant { #[verifier::external_body] pub fn now() -> Instant { unimplemented!() } }
pub mod handshake { pub struct Outcome; }
pub struct RefsAt;
#[derive(Clone, Debug)] pub struct Update<'a> { pub opaque: &'a u8 }
pub struct Applied;
pub struct Keepfile;
pub mod git { pub mod mem { #[derive(Default)] pub struct Refdb; } }
#[derive(Clone, Copy, Debug)] pub struct FetchLimit { pub special: u64, pub refs: u64 }
pub mod transport { pub trait ConnectionStream {} }

// ghost facts about the serving peer's data that the checks establish
/// `sigrefs::validate` found the fetched namespace of `r` to match its signed refs exactly
pub uninterp spec fn validated(r: PublicKey) -> bool;
/// the block list
pub uninterp spec fn blocked(r: PublicKey) -> bool;
/// commit of the `rad/sigrefs` currently stored locally for `r`, if any
pub uninterp spec fn stored_at(r: PublicKey) -> Option<Oid>;
/// commit of the `rad/sigrefs` the serving peer advertised for `r` in this fetch
pub uninterp spec fn adv_at(r: PublicKey) -> Oid;
/// git ancestry of two commits (libgit2)
pub uninterp spec fn anc(old: Oid, new: Oid) -> repository::Ancestry;
/// from the statement (C01 'rewound or diverged sigrefs', C02): the advertised sigrefs do not rewind or fork the stored ones
pub open spec fn fresh(r: PublicKey) -> bool {
    stored_at(r) is None || !(anc(stored_at(r)->Some_0, adv_at(r)) is Behind || anc(stored_at(r)->Some_0, adv_at(r)) is Diverged)
}

pub struct Doc { pub t: usize }
impl Doc {
    pub uninterp spec fn thr(self) -> nat;
    pub uninterp spec fn is_del(self, did: Did) -> bool;
    #[verifier::external_body] pub fn is_delegate(&self, did: &Did) -> (b: bool) ensures b == self.is_del(*did) { unimplemented!() }
    /// ASSUMED here, proved in unit `identity` (RawDoc::verified / Threshold::new): a valid document's threshold is >= 1
    #[verifier::external_body] pub fn threshold(&self) -> (r: usize) ensures r >= 1, r == self.thr() { unimplemented!() }
}
pub mod error {
    pub enum Canonical { Other }
    pub enum Protocol { MissingRadId, Diverged { remote: crate::PublicKey, current: crate::Oid, received: crate::Oid }, RemoteIds(u8), Other }
    impl From<Canonical> for Protocol { #[verifier::external_body] fn from(e: Canonical) -> Self { unimplemented!() } }
    pub struct Step;
    impl From<Step> for Protocol { #[verifier::external_body] fn from(e: Step) -> Self { unimplemented!() } }
    impl From<crate::RefsError> for Protocol { #[verifier::external_body] fn from(e: crate::RefsError) -> Self { unimplemented!() } }
    impl From<crate::repository::error::Ancestry> for Protocol { #[verifier::external_body] fn from(e: crate::repository::error::Ancestry) -> Self { unimplemented!() } }
    impl From<crate::repository::error::Update> for Protocol { #[verifier::external_body] fn from(e: crate::repository::error::Update) -> Self { unimplemented!() } }
    impl From<crate::StorageError> for Protocol { #[verifier::external_body] fn from(e: crate::StorageError) -> Self { unimplemented!() } }
    impl From<crate::RemoteRefsError> for Protocol { #[verifier::external_body] fn from(e: crate::RemoteRefsError) -> Self { unimplemented!() } }
}
pub struct RefsError; pub struct StorageError; pub struct RemoteRefsError;
pub struct Repository;
pub struct Transport;
impl Transport { #[verifier::external_body] pub fn done(&mut self) -> Result<(), RefsError> { unimplemented!() } }
/// the local node id is a plain field of the handle: no transport or repository operation changes it
pub broadcast axiom fn handle_local_is_field<S>(h: Handle<S>) ensures #[trigger] h.local_spec() == h.local;
pub struct Handle<S> { pub repo: Repository, pub transport: Transport, pub local: PublicKey, pub s: S }
impl<S> Handle<S> {
    pub uninterp spec fn local_spec(self) -> PublicKey;
    #[verifier::external_body] pub fn local(&self) -> (r: PublicKey) ensures r == self.local_spec() { unimplemented!() }
    #[verifier::external_body] pub fn is_blocked(&self, r: &PublicKey) -> (b: bool) ensures b == blocked(*r) { unimplemented!() }
}
pub struct Cached;
impl Cached { #[verifier::external_body] pub fn canonical(&self) -> Result<Option<Doc>, error::Canonical> { unimplemented!() } }
pub mod stage {
    pub struct CanonicalId { pub remote: crate::PublicKey, pub limit: u64 }
    pub struct DataRefs { pub remote: crate::PublicKey, pub remotes: crate::sigrefs::RemoteRefs, pub limit: u64 }
    pub trait ProtocolStage {}
    impl ProtocolStage for CanonicalId {}
    impl ProtocolStage for DataRefs {}
}
pub mod repository {
    use vstd::prelude::*;
    use crate::*;
    #[derive(Clone, Copy, Debug, PartialEq, Eq)] pub enum Ancestry { Equal, Ahead, Behind, Diverged }
    pub mod error { pub struct Ancestry; pub struct Update; }
    /// git ancestry of the stored vs. advertised `rad/sigrefs` (libgit2): ASSUMED to decide the ghost relation `anc`
    #[verifier::external_body]
    pub fn ancestry(repo: &Repository, old: Oid, new: Oid) -> (r: Result<Ancestry, error::Ancestry>)
        ensures r is Ok ==> r->Ok_0 == anc(old, new)
    { unimplemented!() }
}
/// SINK (C01/C02): applies the surviving tips to the real git repository. From the statements: only if at least
/// `threshold` delegates have valid signed refs, and every namespace that is written was validated against its
/// signed refs (or never entered validation because it is not among the signed-refs remotes / is blocked).
/// `valid` is the set counted against the threshold; `bad` is the ghost set of remotes whose advertised signed refs
/// were found missing or invalid by the oracles during this fetch: none of them may be counted (C02).
#[verifier::external_body]
pub fn vx_update(repo: &Repository, tips: &BTreeMap<PublicKey, Vec<Update<'static>>>, Ghost(valid): Ghost<Set<PublicKey>>, Ghost(doc_threshold): Ghost<nat>, Ghost(local_is_delegate): Ghost<bool>, Ghost(offered): Ghost<Set<PublicKey>>, Ghost(bad): Ghost<Set<PublicKey>>) -> (r: Result<Applied, repository::error::Update>)
    requires
        // the identity threshold, one fewer when the local node is itself a delegate (statement of C02)
        valid.finite() && valid.len() >= doc_threshold - (if local_is_delegate { 1nat } else { 0nat }),                                                     //[C02]
        forall|r: PublicKey| valid.contains(r) ==> !bad.contains(r),                                           //[C02]
        forall|r: PublicKey| tips@.contains_key(r) && offered.contains(r) && !blocked(r) ==> validated(r),     //[C01]
        forall|r: PublicKey| tips@.contains_key(r) && offered.contains(r) && !blocked(r) ==> fresh(r),         //[C01,C02]
{ unimplemented!() }
pub struct SignedRefsAt { pub at: Oid, pub remote: PublicKey }
impl SignedRefsAt {
    /// the signed refs currently stored for `remote` in the local repository, if any
    #[verifier::external_body] pub fn load(remote: PublicKey, repo: &Repository) -> (r: Result<Option<SignedRefsAt>, RefsError>)
        ensures r is Ok ==> ((r->Ok_0 is Some) == (stored_at(remote) is Some)) && (r->Ok_0 is Some ==> r->Ok_0->Some_0.at == stored_at(remote)->Some_0 && r->Ok_0->Some_0.remote == remote)
    { unimplemented!() }
}
pub struct Validations { pub opaque: u64 } // (a field: two values must be distinguishable, their ghost emptiness differs)
impl Validations {
    #[verifier::external_body] pub fn default() -> Validations { unimplemented!() }
    #[verifier::external_body] pub fn push(&mut self, v: sigrefs::Validation) { unimplemented!() }
    #[verifier::external_body] pub fn append(&mut self, o: &mut Validations) { unimplemented!() }
    pub uninterp spec fn empty(self) -> bool;
    #[verifier::external_body] pub fn is_empty(&self) -> (r: bool) ensures r == self.empty() { unimplemented!() }
    #[verifier::external_body] pub fn len(&self) -> usize { unimplemented!() }
}
pub mod sigrefs {
    use vstd::prelude::*;
    use crate::*;
    pub use crate::{Validations, SignedRefsAt, DelegateStatus};
    pub enum Validation { MissingRadSigRefs(PublicKey) }
    /// the signed refs advertised by the serving peer, per remote (finite map)
    pub struct RemoteRefs { pub m: BTreeMap<PublicKey, SignedRefsAt> }
    pub struct Keys<'a> { pub rr: &'a RemoteRefs, pub seen: Ghost<Set<PublicKey>> }
    impl<'a> Keys<'a> {
        /// ASSUMED (BTreeMap::keys): yields keys of the map, each at most once
        #[verifier::external_body]
        pub fn next(&mut self) -> (r: Option<&'a PublicKey>)
            ensures final(self).rr == old(self).rr,
                r is Some ==> old(self).rr.m@.contains_key(*r->Some_0) && !old(self).seen@.contains(*r->Some_0) && final(self).seen@ == old(self).seen@.insert(*r->Some_0),
                r is None ==> final(self).seen@ == old(self).seen@ && (forall|k: PublicKey| old(self).rr.m@.contains_key(k) ==> old(self).seen@.contains(k)),
        { unimplemented!() }
    }
    impl RemoteRefs {
        #[verifier::external_body] pub fn keys(&self) -> (r: Keys<'_>) ensures r.rr == self, r.seen@ == Set::<PublicKey>::empty() { unimplemented!() }
        #[verifier::external_body] pub fn len(&self) -> usize { unimplemented!() }
    }
    /// SignedRefsAt loaded from the *fetched* (in-memory) refs: result arbitrary
    #[verifier::external_body]
    pub fn vx_load_status(st: DelegateStatus<()>, cached: &Cached, bad: &mut Ghost<Set<PublicKey>>) -> (r: Result<DelegateStatus<Option<SignedRefsAt>>, RefsError>)
        ensures r is Ok ==> r->Ok_0.rem() == st.rem() && (r->Ok_0 is Delegate) == (st is Delegate)
            && (r->Ok_0.dat() is Some ==> r->Ok_0.dat()->Some_0.remote == st.rem() && r->Ok_0.dat()->Some_0.at == adv_at(st.rem())),
            final(bad)@ == (if r is Ok && r->Ok_0.dat() is None { old(bad)@.insert(st.rem()) } else { old(bad)@ }),
    { unimplemented!() }
    /// `sigrefs::validate`: compares the fetched namespace with its signed refs (iterator code over git2, not
    /// verified here). ASSUMED: no validation failure reported  ==>  the namespace matches its signed refs.
    #[verifier::external_body]
    pub fn vx_validate(cached: &Cached, s: SignedRefsAt, bad: &mut Ghost<Set<PublicKey>>) -> (r: Result<Option<Validations>, StorageError>)
        ensures r is Ok && r->Ok_0 is None ==> validated(s.remote),
            final(bad)@ == (if r is Ok && r->Ok_0 is Some { old(bad)@.insert(s.remote) } else { old(bad)@ }),
    { unimplemented!() }
    /// delegate-path variant `validate(..)?.unwrap_or(Validations::default())` followed by `is_empty()`
    #[verifier::external_body]
    pub fn vx_validate_or_default(cached: &Cached, s: SignedRefsAt, bad: &mut Ghost<Set<PublicKey>>) -> (r: Result<Validations, StorageError>)
        ensures r is Ok && r->Ok_0.empty() ==> validated(s.remote),
            final(bad)@ == (if r is Ok && !r->Ok_0.empty() { old(bad)@.insert(s.remote) } else { old(bad)@ }),
    { unimplemented!() }
}
/// stand-in for the iterator chain building the (non-blocked) delegate key set from the anchor document
#[verifier::external_body]
pub fn vx_delegate_keys<S>(anchor: &Doc, handle: &Handle<S>) -> BTreeSet<PublicKey> { unimplemented!() }
/// stand-in for `handle.repository().remote_ids().map_err(..)?.filter_map(|id| id.ok())`: the namespaces present locally, as a
/// stand-in iterator (the ghost collection of keys it may yield); `filter` and `collect` by their defining contracts
#[verifier::external_body]
pub struct VxKeys { _p: std::marker::PhantomData<PublicKey> }
impl VxKeys {
    pub uninterp spec fn has(self, x: PublicKey) -> bool;
    /// ASSUMED (Iterator::filter): yields only items for which the predicate returned true
    #[verifier::external_body]
    pub fn filter<F: Fn(&PublicKey) -> bool>(self, f: F) -> (r: VxKeys)
        requires forall|x: PublicKey| #[trigger] self.has(x) ==> f.requires((&x,))
        ensures forall|x: PublicKey| #[trigger] r.has(x) ==> self.has(x) && f.ensures((&x,), true)
    { unimplemented!() }
    /// ASSUMED (Iterator::collect into a BTreeSet): exactly the items yielded
    #[verifier::external_body]
    pub fn collect<B: VxCollect>(self) -> (r: B) ensures forall|x: PublicKey| #[trigger] r.keys().contains(x) ==> self.has(x) { unimplemented!() }
}
pub trait VxCollect { spec fn keys(&self) -> Set<PublicKey>; }
impl VxCollect for BTreeSet<PublicKey> { open spec fn keys(&self) -> Set<PublicKey> { self@ } }
#[verifier::external_body]
pub fn vx_local_remote_ids<S>(handle: &Handle<S>) -> Result<VxKeys, error::Protocol> { unimplemented!() }
pub enum FetchResult {
    Success { applied: Applied, remotes: BTreeSet<PublicKey>, validations: Validations },
    Failed { threshold: usize, delegates: BTreeSet<PublicKey>, validations: Validations },
}

//@extract crates/radicle-fetch/src/sigrefs.rs
//@  item enum DelegateStatus
//@    derive Clone, Copy, Debug, PartialEq, Eq
//@  impl DelegateStatus
//@    fn empty
//@      ret r
//@      ensures
//@        r.rem() == remote && (r is Delegate) == delegates@.contains(remote)
//@      head
//@        proof { keys_lawful(); }
//@  impl <T> DelegateStatus<T>
//@    add
//@      pub open spec fn rem(self) -> PublicKey { match self { DelegateStatus::Delegate { remote, .. } => remote, DelegateStatus::NonDelegate { remote, .. } => remote } }
//@      pub open spec fn dat(self) -> T { match self { DelegateStatus::Delegate { data, .. } => data, DelegateStatus::NonDelegate { data, .. } => data } }
//@    fn new
//@      ret r
//@      ensures
//@        r.rem() == remote && (r is Delegate) == delegates@.contains(remote)
//@      head
//@        proof { keys_lawful(); }
//@end

//@extract crates/radicle-fetch/src/state.rs
//@  item type IdentityTips
//@  item type SigrefTips
//@  item struct FetchState
//@    fields canonical_rad_id, ids, sigrefs, tips
//@    derive Default
//@  impl FetchState
//@    fn prune
//@      ensures
//@        # C01: a pruned namespace is left exactly as it was: nothing of it survives in the tips to be applied
//@        final(self).tips@ == old(self).tips@.remove(*remote)
//@        final(self).ids@ == old(self).ids@.remove(*remote) && final(self).sigrefs@ == old(self).sigrefs@.remove(*remote)
//@      head
//@        proof { keys_lawful(); }
//@  impl FetchState
//@    add
//@      /// protocol stages (network + in-memory refdb): arbitrary effect on the fetch state; ASSUMED: the handle's local node id is constant
//@      #[verifier::external_body]
//@      pub(crate) fn run_stage<S, F: stage::ProtocolStage>(&mut self, handle: &mut Handle<S>, handshake: &handshake::Outcome, step: &F) -> Result<BTreeSet<PublicKey>, error::Step>
//@        ensures final(handle).local_spec() == old(handle).local_spec()
//@      { unimplemented!() }
//@      #[verifier::external_body]
//@      fn run_special_refs<S>(&mut self, handle: &mut Handle<S>, handshake: &handshake::Outcome, delegates: BTreeSet<PublicKey>, threshold: usize, limit: &FetchLimit, remote: PublicKey, refs_at: Option<Vec<RefsAt>>) -> Result<sigrefs::RemoteRefs, error::Protocol>
//@        ensures final(handle).local_spec() == old(handle).local_spec()
//@      { unimplemented!() }
//@      #[verifier::external_body]
//@      pub(crate) fn as_cached<S>(&mut self, handle: &mut Handle<S>) -> (c: Cached) ensures *final(self) == *old(self), *final(handle) == *old(handle) { unimplemented!() }
//@    fn run
//@      attr #[verifier::exec_allows_no_decreases_clause]
//@      attr #[verifier::loop_isolation(false)]
//@      attr #[verifier::allow_complex_invariants]
//@      sig mut self, => &mut self,
//@      desugar_try
//@      desugar_for
//@      nloops 1
//@      body_sub Instant::now\(\) => Instant::now()
//@      body_sub (?s)anchor\s*\.delegates\(\)\s*\.iter\(\)\s*\.filter\(\|id\| !handle\.is_blocked\(id\)\)\s*\.map\(\|did\| PublicKey::from\(\*did\)\)\s*\.collect::<BTreeSet<_>>\(\) => vx_delegate_keys(&anchor, handle)
//@      # the iterator chain over the local namespaces: its source is a stand-in, the delegate filter keeps its text and gets its contract in place
//@      body_sub (?s)handle\s*\.repository\(\)\s*\.remote_ids\(\)\s*\.map_err\(error::Protocol::RemoteIds\)\?\s*\.filter_map\(\|id\| id\.ok\(\)\) => vx_local_remote_ids(handle)?
//@      body_sub? \.filter\(\|id\| delegates\.contains\(id\)\) => .filter(|id: &PublicKey| -> (b: bool) ensures b == delegates@.contains(*id) { delegates.contains(id) })
//@      body_sub sigrefs::DelegateStatus::empty\(\*remote, &delegates\)\s*\.load\(&self\.as_cached\(handle\)\)\? => sigrefs::vx_load_status(sigrefs::DelegateStatus::empty(*remote, &delegates), &self.as_cached(handle), &mut vx_bad)?
//@      body_sub (?s)sigrefs::validate\(&cache, sigrefs\)\?\.unwrap_or\(Validations::default\(\)\) => sigrefs::vx_validate_or_default(&cache, sigrefs, &mut vx_bad)?
//@      body_sub (?s)repository::update\(\s*&handle\.repo,\s*self\.tips\s*\.clone\(\)\s*\.into_values\(\)\s*\.flat_map\(\|ups\| ups\.into_iter\(\)\),\s*\) => vx_update(&handle.repo, &self.tips, Ghost(valid_delegates@), Ghost(anchor.thr()), Ghost(anchor.is_del(Did(handle.local_spec()))), Ghost(signed_refs.m@.dom()), Ghost(vx_bad@))
//@      body_sub sigrefs::validate\(&cache, sigrefs\)\?\.as_mut\(\) => sigrefs::vx_validate(&cache, sigrefs, &mut vx_bad)?
//@      body_sub failures\.append\(warns\); => { let mut warns = warns; failures.append(&mut warns); }
//@      hint? 1 let mut failed_delegates = BTreeSet::new\(\);
//@        assert forall|x: PublicKey| valid_delegates@.contains(x) implies delegates@.contains(x) by { assert(valid_delegates.keys().contains(x)); }
//@      loop 1
//@        invariant
//@          __vx_it1.rr == &signed_refs
//@          vstd::laws_cmp::obeys_cmp_spec::<PublicKey>()
//@          handle.local_spec() == old(handle).local_spec()
//@          # every remote already visited is validated, blocked, or no longer has tips to apply
//@          forall|r: PublicKey| __vx_it1.seen@.contains(r) && self.tips@.contains_key(r) && !blocked(r) ==> validated(r) //[C01]
//@          forall|r: PublicKey| __vx_it1.seen@.contains(r) && self.tips@.contains_key(r) && !blocked(r) ==> fresh(r) //[C01,C02]
//@          # C02: nothing the oracles found missing/invalid is counted as a valid delegate
//@          valid_delegates@.subset_of(delegates@) //[C02]
//@          forall|r: PublicKey| vx_bad@.contains(r) ==> __vx_it1.seen@.contains(r) && !valid_delegates@.contains(r) //[C02]
//@        ensures
//@          forall|r: PublicKey| signed_refs.m@.contains_key(r) ==> __vx_it1.seen@.contains(r)
//@      head
//@        proof { keys_lawful(); }
//@        let mut vx_bad: Ghost<Set<PublicKey>> = Ghost(Set::empty());
//@end

//@canary
} // verus!
fn main() {}
