// Unit `policy_config` (C12): the seeding policy that Worker::is_authorized consults is the operator's explicit entry
// for the repository whenever there is one -- allow or block -- and the node-wide default only when there is none.
// Real code: Config::seed_policy (crates/radicle/src/node/policy/config.rs).
use vstd::prelude::*;
//@include _prelude.rs

verus! {
//@include _panic.rs

// ---- environment (declarations only) ------------------------------------------------------------------
#[derive(Clone, Copy, PartialEq, Eq, Debug)] pub struct RepoId(pub [u8; 20]);
/// radicle::node::policy::SeedingPolicy, scope abstracted
#[derive(Clone, Copy, PartialEq, Eq, Debug)] pub enum SeedingPolicy { Allow, Block }
impl SeedingPolicy {
    pub fn is_block(&self) -> (r: bool) ensures r == (*self == SeedingPolicy::Block) { matches!(self, SeedingPolicy::Block) }
    pub fn is_allow(&self) -> (r: bool) ensures r == (*self == SeedingPolicy::Allow) { matches!(self, SeedingPolicy::Allow) }
}
#[derive(Clone, Copy, PartialEq, Eq, Debug)] pub struct SeedPolicy { pub rid: RepoId, pub policy: SeedingPolicy }
#[derive(Debug)] pub struct Error;
/// the policy database
pub struct Store<T> { pub db: T }
impl<T> Store<T> {
    /// ghost: the operator's explicit entry for a repository, if any
    pub uninterp spec fn entry(&self, rid: RepoId) -> Option<SeedPolicy>;
    /// ASSUMED (policy::store::Store::seed_policy, SQL): looks the entry up
    #[verifier::external_body]
    pub fn seed_policy(&self, rid: &RepoId) -> (r: Result<Option<SeedPolicy>, Error>) ensures r is Ok ==> r->Ok_0 == self.entry(*rid) { unimplemented!() }
}
//@extract crates/radicle/src/node/policy/config.rs
//@  item struct Config
//@  impl <T> Config<T>
//@    drop new, is_seeding, namespaces_for, follow_policy, is_blocking, store
//@    fn seed_policy
//@      ret r
//@      ensures
//@        # C12: an explicit entry -- in particular a block -- is never overridden by the node-wide default
//@        r is Ok && self.store.entry(*rid) is Some ==> r->Ok_0 == self.store.entry(*rid)->Some_0 //[C12]
//@        r is Ok && self.store.entry(*rid) is None ==> r->Ok_0 == (SeedPolicy { rid: *rid, policy: self.policy })
//@end

//@canary
} // verus!
fn main() {}
