// ---- stand-in for std::num::NonZeroUsize (vstd has no spec for NonZero<T>) ----------------
// ASSUMED (std): NonZeroUsize::new(n) is None iff n == 0; get() returns the wrapped non-zero value; MIN is 1.
#[derive(Debug, Clone, Copy, PartialEq, Eq)]
pub struct NonZeroUsize { v: usize }
impl NonZeroUsize {
    #[verifier::type_invariant]
    spec fn inv(self) -> bool { self.v > 0 }
    pub closed spec fn val(self) -> usize { self.v }
    const MIN: NonZeroUsize = NonZeroUsize { v: 1 };
    pub(crate) fn new(n: usize) -> (r: Option<NonZeroUsize>)
        ensures (n == 0) == (r is None), r is Some ==> r->Some_0.val() == n
    { if n == 0 { None } else { Some(NonZeroUsize { v: n }) } }
    pub(crate) fn get(self) -> (r: usize)
        ensures r == self.val(), r > 0
    { proof { use_type_invariant(&self); } self.v }
    proof fn lemma_min() ensures Self::MIN.val() == 1 {}
}
