// Unit `cob_evaluate` (C06): while a change graph is evaluated, a change whose signature does not verify, or which the
// object type rejects, is pruned WITHOUT having touched the state; an accepted change is applied exactly once.
// Real code: ChangeGraph::evaluate (crates/radicle-cob/src/change_graph.rs) including the filter closure it passes to
// Dag::prune_by (lifted, body verbatim, to a named fn so that it can carry a contract).
use vstd::prelude::*;
use std::collections::BTreeSet;
use std::ops::ControlFlow;
use std::cmp::Ordering;
//@include _prelude.rs

verus! {
//@include _panic.rs

// ---- environment (declarations only) ------------------------------------------------------------------
#[derive(Clone, Copy, PartialEq, Eq, PartialOrd, Ord, Debug)] pub struct Oid(pub [u8; 20]);
pub type EntryId = Oid;
#[derive(Clone, Copy, Debug)] pub struct ObjectId(pub Oid);
impl std::ops::Deref for ObjectId { type Target = Oid; fn deref(&self) -> (r: &Oid) ensures *r == self.0 { &self.0 } }
#[derive(Clone, Debug)] pub struct Manifest { pub opaque: u8 }
pub struct TypeName;
#[derive(Debug)] pub struct InitError;
#[derive(Debug)]
pub enum EvaluateError { Init(InitError), Signature(EntryId), MissingRoot(EntryId) }
/// stand-in for `EvaluateError::Init(Box::new(e))` (boxed `dyn Error`)
#[verifier::external_body] pub fn vx_init_error<E>(e: E) -> (r: EvaluateError) ensures r is Init { unimplemented!() }

/// `radicle_cob::Entry` (change::store::Entry<..>): only what `evaluate` touches
pub struct Entry { pub id: EntryId, pub manifest: Manifest, pub timestamp: u64 }
impl Entry {
    /// ghost: every signature of the entry verifies over its revision
    pub uninterp spec fn sig_ok(&self) -> bool;
    /// ASSUMED (change::store::Entry::valid_signatures): returns that fact
    #[verifier::external_body]
    pub fn valid_signatures(&self) -> (r: bool) ensures r == self.sig_ok() { unimplemented!() }
}
/// `radicle_dag::Node`
pub struct Node<K, V> { pub key: K, pub value: V, pub dependents: BTreeSet<K> }
impl<K, V> std::ops::Deref for Node<K, V> { type Target = V; fn deref(&self) -> (r: &V) ensures *r == self.value { &self.value } }
/// `radicle_dag::Dag`
pub struct Dag<K, V> { pub opaque: (K, V) }
impl<K, V> Dag<K, V> {
    pub uninterp spec fn node(self, k: K) -> Option<Node<K, V>>;
    /// ASSUMED (radicle_dag::Dag::get): map lookup
    #[verifier::external_body]
    pub fn get(&self, k: &K) -> (r: Option<&Node<K, V>>)
        ensures r is Some <==> self.node(*k) is Some, r is Some ==> *r->Some_0 == self.node(*k)->Some_0
    { unimplemented!() }
}
/// the iterator over the concurrent ("sibling") nodes handed to the filter of `Dag::prune_by`, and its `map`
pub struct Siblings<'r> { pub opaque: &'r u8 }
pub struct SiblingEntries<'r> { pub opaque: &'r u8 }
impl<'r> Siblings<'r> {
    #[verifier::external_body]
    pub fn map<F: FnMut((&'r Oid, &'r Node<Oid, Entry>)) -> (&'r Oid, &'r Entry)>(self, f: F) -> SiblingEntries<'r> { unimplemented!() }
}
pub struct History { pub opaque: u8 }
impl History {
    /// stand-in for History::new (asserts that the root is in the graph: not part of this property)
    #[verifier::external_body] pub fn new(root: EntryId, graph: Dag<EntryId, Entry>) -> History { unimplemented!() }
}
pub struct CollaborativeObject<T> { pub manifest: Manifest, pub object: T, pub history: History, pub id: ObjectId }

/// `radicle_cob::object::collaboration::Evaluate`. From the statement (C06): an entry that the object type rejects
/// never partially takes effect -- on `Err` the object is exactly what it was (proved for Issue, Patch and Identity
/// in unit cob_op, whose `apply` is `Op::try_from(entry)?` followed by `op`).
pub trait Evaluate<R>: Sized {
    type Error;
    /// ghost: `post` is the result of applying `entry` to `pre`
    spec fn applied(pre: Self, entry: Entry, post: Self) -> bool;
    fn init(entry: &Entry, store: &R) -> Result<Self, <Self as Evaluate<R>>::Error>;
    fn apply<'a>(&mut self, entry: &Entry, concurrent: SiblingEntries<'a>, store: &R) -> (r: Result<(), <Self as Evaluate<R>>::Error>)
        ensures
            r is Err ==> *final(self) == *old(self),
            r is Ok ==> Self::applied(*old(self), *entry, *final(self));
}
/// stand-in for `Vec::from_iter(root.dependents.iter().cloned())`
#[verifier::external_body] pub fn vx_children(s: &BTreeSet<Oid>) -> Vec<Oid> { unimplemented!() }

//@extract crates/radicle-cob/src/change_graph.rs
//@  item struct ChangeGraph
//@  impl ChangeGraph
//@    add
//@      /// stand-in for radicle_dag::Dag::prune_by(&children, <the filter below>, Self::chronological): ASSUMED to call the
//@      /// filter once on every node reachable from `roots`, dependencies first, and to remove from the graph every node on
//@      /// which it answered Break together with all of that node's dependents. (Its effect on `object` is the effect of
//@      /// those calls: arbitrary here, the per-call contract is on `vx_prune_step`.)
//@      #[verifier::external_body]
//@      fn vx_prune_by<S, T: Evaluate<S>>(g: &mut Dag<Oid, Entry>, roots: &Vec<Oid>, object: &mut T, store: &S) { unimplemented!() }
//@    fn evaluate
//@      ret r
//@      sig \bmut self\b => self
//@      lift_closure vx_prune_step &children,
//@        sig <S, T: Evaluate<S>>(object: &mut T, store: &S, _k: &Oid, entry: &Node<Oid, Entry>, siblings: Siblings<'_>) -> (r: ControlFlow<()>)
//@        ensures
//@          # C06: a rejected change (bad signature, or refused by the object type) leaves no trace in the state ...
//@          r is Break ==> *final(object) == *old(object) //[C06]
//@          # ... a change whose signature does not verify is always rejected ...
//@          !entry.value.sig_ok() ==> r is Break //[C06]
//@          # ... and an accepted change is applied, once, to the state as it was
//@          r is Continue ==> T::applied(*old(object), entry.value, *final(object)) //[C06]
//@      body_sub (?s)self\.graph\.prune_by\(\s*&children,\s*Self::vx_prune_step => Self::vx_prune_by(&mut vx_graph, &children, &mut object, store
//@      body_sub (?s)^,\s*Self::chronological,\s*\) => )
//@      body_sub self\s*\.graph\b => vx_graph
//@      body_sub \.map_err\(\|e\| EvaluateError::Init\(Box::new\(e\)\)\) => .map_err(|e| -> (o: EvaluateError) ensures o is Init { vx_init_error(e) })
//@      body_sub Vec::from_iter\(root\.dependents\.iter\(\)\.cloned\(\)\) => vx_children(&root.dependents)
//@      ensures
//@        # C06: there is no object without a root whose signature verifies
//@        r is Ok ==> self.graph.node(self.object_id.0) is Some && self.graph.node(self.object_id.0)->Some_0.value.sig_ok() //[C06]
//@        self.graph.node(self.object_id.0) is None ==> r matches Err(EvaluateError::MissingRoot(_))
//@      head
//@        let mut vx_graph = self.graph;
//@end

//@canary
} // verus!
fn main() {}
