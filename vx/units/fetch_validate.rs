// Unit `fetch_validate` (C01): the ref-by-ref comparison of a fetched namespace with its owner's signed refs.
// Real code: <Cached as ValidateRepository>::validate_remote (crates/radicle-fetch/src/state.rs) and
// sigrefs::validate (crates/radicle-fetch/src/sigrefs.rs). This is what `validated(r)` of unit fetch_run stands for.
use vstd::prelude::*;
use std::collections::BTreeMap;
use std::ops::Not;
//@include _prelude.rs

verus! {
//@include _panic.rs

// ---- environment ------------------------------------------------------------------------------------------------
#[derive(Clone, Copy, PartialEq, Eq, Debug)] pub struct PublicKey(pub [u8; 32]);
#[derive(Clone, Copy, PartialEq, Eq, Debug)] pub struct Oid(pub [u8; 20]);
/// ASSUMED (derive(PartialEq) on a byte-array newtype): structural equality
impl vstd::std_specs::cmp::PartialEqSpecImpl for Oid { open spec fn obeys_eq_spec() -> bool { true } open spec fn eq_spec(&self, o: &Self) -> bool { *self == *o } }
/// git ref name (radicle::git::RefString, external): opaque, totally ordered
#[derive(Clone, PartialEq, Eq, PartialOrd, Ord, Debug)] pub struct RefString { pub id: u64 }
/// ASSUMED (RefString's Ord/Eq are those of the underlying string): lawful total order, structural equality
#[verifier::external_body]
pub proof fn refstring_lawful() ensures vstd::laws_cmp::obeys_cmp_spec::<RefString>() {}
impl vstd::std_specs::cmp::PartialEqSpecImpl for RefString { open spec fn obeys_eq_spec() -> bool { true } open spec fn eq_spec(&self, o: &Self) -> bool { *self == *o } }
/// the name `refs/rad/sigrefs`
pub uninterp spec fn sigrefs_name() -> RefString;
pub mod storage {
    pub struct Error;
    pub mod refs {
        use vstd::prelude::*;
        pub struct Name;
        pub const SIGREFS_BRANCH: Name = Name;
        impl Name { #[verifier::external_body] pub fn to_ref_string(&self) -> (r: crate::RefString) ensures r == crate::sigrefs_name() { unimplemented!() } }
    }
}
/// radicle::storage::refs::Refs: the signed map refname -> oid
#[derive(Debug)] pub struct Refs { pub m: BTreeMap<RefString, Oid> }
impl Clone for Refs { #[verifier::external_body] fn clone(&self) -> (r: Self) ensures r == *self { unimplemented!() } }
impl From<Refs> for BTreeMap<RefString, Oid> { fn from(r: Refs) -> (o: BTreeMap<RefString, Oid>) ensures o == r.m { r.m } }
impl vstd::std_specs::convert::FromSpecImpl<Refs> for BTreeMap<RefString, Oid> { open spec fn obeys_from_spec() -> bool { true } open spec fn from_spec(r: Refs) -> BTreeMap<RefString, Oid> { r.m } }
pub struct SignedRefs { pub refs: Refs, pub id: PublicKey }
impl std::ops::Deref for SignedRefs { type Target = Refs; fn deref(&self) -> (r: &Refs) ensures *r == self.refs { &self.refs } }
pub struct Remote { pub refs: SignedRefs }
impl Remote { pub fn new(refs: SignedRefs) -> (r: Remote) ensures r.refs == refs { Remote { refs } } }
pub struct SignedRefsAt { pub sigrefs: SignedRefs, pub at: Oid }
pub mod radicle { pub mod storage { pub use crate::storage::Error; } }
impl std::ops::Deref for Remote { type Target = SignedRefs; fn deref(&self) -> (r: &SignedRefs) ensures *r == self.refs { &self.refs } }
pub enum Validation {
    MismatchedRef { refname: RefString, expected: Oid, actual: Oid },
    UnsignedRef(RefString), MissingRadSigRefs(PublicKey), MissingRef { refname: RefString, remote: PublicKey },
}
/// radicle::storage::Validations (a Vec of findings)
pub struct Validations { pub v: Vec<Validation> }
impl Validations {
    pub open spec fn empty(self) -> bool { self.v@.len() == 0 }
    pub fn default() -> (r: Validations) ensures r.empty() { Validations { v: Vec::new() } }
    pub fn push(&mut self, x: Validation) ensures !final(self).empty() { self.v.push(x); }
    pub fn is_empty(&self) -> (r: bool) ensures r == self.empty() { self.v.len() == 0 }
}
/// the in-memory refdb of the fetch: ghost view = the refs fetched into each namespace
pub struct Refdb { pub opaque: u64 } // (a field: states of the refdb are distinguishable values)
impl Refdb {
    pub uninterp spec fn ns(self, remote: PublicKey) -> Map<RefString, Oid>;
    /// ASSUMED (git::mem::Refdb::references_of over a BTreeMap): yields every (name, oid) of that namespace exactly once
    #[verifier::external_body]
    pub fn references_of<'a>(&'a self, remote: &'a PublicKey) -> (r: VxMapIter) ensures r.m == self.ns(*remote), r.seen@ == Set::<RefString>::empty() { unimplemented!() }
}
/// stand-in for an iterator over the entries of a map (filter_map over BTreeMap::iter, BTreeMap::into_iter)
pub struct VxMapIter { pub m: Map<RefString, Oid>, pub seen: Ghost<Set<RefString>> }
impl VxMapIter {
    #[verifier::external_body]
    pub fn next(&mut self) -> (r: Option<(RefString, Oid)>)
        ensures final(self).m == old(self).m,
            r is Some ==> old(self).m.contains_key(r->Some_0.0) && old(self).m[r->Some_0.0] == r->Some_0.1 && !old(self).seen@.contains(r->Some_0.0)
                && final(self).seen@ == old(self).seen@.insert(r->Some_0.0),
            r is None ==> final(self).seen@ == old(self).seen@ && (forall|k: RefString| old(self).m.contains_key(k) ==> old(self).seen@.contains(k)),
    { unimplemented!() }
}
/// stand-in for `signed.into_iter()` (BTreeMap::IntoIter is outside vstd)
#[verifier::external_body]
pub fn vx_into_iter(m: BTreeMap<RefString, Oid>) -> (r: VxMapIter) ensures r.m == m@, r.seen@ == Set::<RefString>::empty() { unimplemented!() }
pub struct FetchState { pub refs: Refdb }
pub struct Cached<'a, S> { pub state: &'a FetchState, pub s: S }
pub struct Validated;

/// From the statement of C01: the fetched namespace contains exactly the references listed in the owner's signed refs
/// (apart from the signed-refs reference itself, which must be there), each pointing at the listed object.
pub open spec fn matches_signed(fetched: Map<RefString, Oid>, signed: Map<RefString, Oid>) -> bool {
    fetched.contains_key(sigrefs_name()) && fetched.remove(sigrefs_name()) =~= signed
}
/// ASSUMED (core): bool::not, bool::then_some
pub assume_specification<T>[bool::then_some::<T>](b: bool, t: T) -> (r: Option<T>) ensures r == (if b { Some(t) } else { None::<T> });

pub trait ValidateRepository {
    spec fn fetched(&self, remote: PublicKey) -> Map<RefString, Oid>;
    fn validate_remote(&self, remote: &Remote) -> (r: Result<Validations, storage::Error>)
        requires !remote.refs.refs.m@.contains_key(sigrefs_name())
        ensures r is Ok && r->Ok_0.empty() ==> matches_signed(self.fetched(remote.refs.id), remote.refs.refs.m@); //[C01]
}

//@extract crates/radicle-fetch/src/state.rs
//@  impl <S> ValidateRepository for Cached<'_, S>
//@    add
//@      open spec fn fetched(&self, remote: PublicKey) -> Map<RefString, Oid> { self.state.refs.ns(remote) }
//@    fn validate_remote
//@      attr #[verifier::exec_allows_no_decreases_clause]
//@      attr #[verifier::loop_isolation(false)]
//@      attr #[verifier::allow_complex_invariants]
//@      desugar_for
//@      body_sub signed\.into_iter\(\) => vx_into_iter(signed)
//@      head
//@        proof { refstring_lawful(); }
//@      loop 1
//@        invariant
//@          __vx_it1.m == self.state.refs.ns(remote.refs.id)
//@          signed@ =~= remote.refs.refs.m@.remove_keys(__vx_it1.seen@)
//@          has_sigrefs == __vx_it1.seen@.contains(sigrefs_name())
//@          forall|k: RefString| #[trigger] __vx_it1.seen@.contains(k) ==> __vx_it1.m.contains_key(k)
//@          validations.empty() ==> forall|k: RefString| #[trigger] __vx_it1.seen@.contains(k) ==> (k == sigrefs_name() || (remote.refs.refs.m@.contains_key(k) && remote.refs.refs.m@[k] == __vx_it1.m[k]))
//@        ensures
//@          forall|k: RefString| __vx_it1.m.contains_key(k) ==> __vx_it1.seen@.contains(k)
//@      hint 1 Ok\(validations\)
//@        if validations.empty() {
//@            let f = self.state.refs.ns(remote.refs.id); let s0 = remote.refs.refs.m@;
//@            assert forall|k: RefString| f.remove(sigrefs_name()).dom().contains(k) == s0.dom().contains(k) by {
//@                if s0.dom().contains(k) { if !__vx_it1.seen@.contains(k) { assert(signed@.contains_key(k)); assert(__vx_it2.seen@.contains(k)); } assert(__vx_it1.m.contains_key(k)); }
//@                if f.remove(sigrefs_name()).dom().contains(k) { assert(__vx_it1.m.contains_key(k)); assert(__vx_it1.seen@.contains(k)); }
//@            }
//@            assert forall|k: RefString| f.remove(sigrefs_name()).dom().contains(k) implies #[trigger] f.remove(sigrefs_name())[k] == s0[k] by { assert(__vx_it1.seen@.contains(k)); }
//@            assert(f.remove(sigrefs_name()) =~= s0);
//@        }
//@      loop 2
//@        invariant
//@          __vx_it2.m == signed@
//@          validations.empty() ==> __vx_it2.seen@ == Set::<RefString>::empty()
//@          validations.empty() ==> has_sigrefs
//@          validations.empty() ==> forall|k: RefString| #[trigger] __vx_it1.seen@.contains(k) ==> (k == sigrefs_name() || (remote.refs.refs.m@.contains_key(k) && remote.refs.refs.m@[k] == __vx_it1.m[k]))
//@        ensures
//@          forall|k: RefString| __vx_it2.m.contains_key(k) ==> __vx_it2.seen@.contains(k)
//@end

//@extract crates/radicle-fetch/src/sigrefs.rs
//@  fn validate
//@    desugar_try
//@    ret r
//@    # Verus takes only variables as fn parameters: the struct pattern moves into a `let`
//@    sig SignedRefsAt \{ sigrefs, \.\. \}: SignedRefsAt, => vx_sra: SignedRefsAt,
//@    body_sub radicle::storage::Remote::<radicle::crypto::Verified>::new\(sigrefs\) => Remote::new(sigrefs)
//@    head
//@      let SignedRefsAt { sigrefs, .. } = vx_sra;
//@      proof { std_from_refl::<storage::Error>(); }
//@    requires
//@      !vx_sra.sigrefs.refs.m@.contains_key(sigrefs_name())
//@    ensures
//@      # this is `validated(remote)` of unit fetch_run: no findings <=> the fetched namespace matches the signed refs
//@      r is Ok && r->Ok_0 is None ==> matches_signed(repo.fetched(vx_sra.sigrefs.id), vx_sra.sigrefs.refs.m@) //[C01]
//@end

//@canary
} // verus!
fn main() {}
