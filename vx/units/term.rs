// Unit `term` (C26): truncating text to a width never slices inside a character and never exceeds the width.
// Real code: <str as Cell>::truncate (crates/radicle-term/src/cell.rs), relative to an ASSUMED grapheme/width
// model of strings (unicode-segmentation / unicode-display-width are external crates; Verus has no byte-level
// model of `str`, so every string operation is a renamed stand-in that keeps the index expressions of the source).
use vstd::prelude::*;
//@include _prelude.rs

verus! {
//@include _panic.rs
global size_of usize == 8;

// ---- string model (all ASSUMED) -------------------------------------------------------------------------
pub uninterp spec fn g_count(s: &str) -> nat;              // number of grapheme clusters
pub uninterp spec fn g_bytes(s: &str, i: int) -> nat;      // byte length of cluster i
pub uninterp spec fn g_width(s: &str, i: int) -> nat;      // display width of cluster i
pub uninterp spec fn blen(s: &str) -> nat;                 // byte length
pub uninterp spec fn is_boundary(s: &str, i: int) -> bool; // char boundary
pub uninterp spec fn width_spec(s: &str) -> nat;           // display width (Cell::width)
pub uninterp spec fn swidth(s: String) -> nat;             // display width of an owned string
pub uninterp spec fn space_at(s: &str, i: int) -> bool;    // an ASCII space starts at byte i
pub open spec fn pre_bytes(s: &str, k: int) -> nat decreases k { if k <= 0 { 0 } else { pre_bytes(s, k - 1) + g_bytes(s, k - 1) } }
pub open spec fn pre_width(s: &str, k: int) -> nat decreases k { if k <= 0 { 0 } else { pre_width(s, k - 1) + g_width(s, k - 1) } }
/// ASSUMED (unicode-segmentation, unicode-display-width, str): clusters tile the string and end on char
/// boundaries; the width of a string is the sum of the widths of its clusters; an ASCII space is one byte;
/// sizes fit comfortably in usize.
#[verifier::external_body]
pub proof fn string_model(s: &str)
    ensures
        pre_bytes(s, g_count(s) as int) == blen(s),
        width_spec(s) == pre_width(s, g_count(s) as int),
        forall|k: int| 0 <= k <= g_count(s) ==> is_boundary(s, #[trigger] pre_bytes(s, k) as int) && pre_bytes(s, k) <= blen(s),
        forall|i: int| space_at(s, i) ==> is_boundary(s, i + 1) && i + 1 <= blen(s),
        blen(s) <= 0x0fff_ffff_ffff_ffff, forall|k: int| 0 <= k <= g_count(s) ==> #[trigger] pre_width(s, k) <= 0x0fff_ffff_ffff_ffff,
{}
pub struct Graphemes<'a> { pub s: &'a str, pub k: Ghost<int> }
impl<'a> Graphemes<'a> {
    #[verifier::external_body]
    pub fn next(&mut self) -> (r: Option<&'a str>)
        ensures
            final(self).s == old(self).s,
            old(self).k@ < g_count(old(self).s) ==> r is Some && final(self).k@ == old(self).k@ + 1
                && blen(r->Some_0) == g_bytes(old(self).s, old(self).k@) && width_spec(r->Some_0) == g_width(old(self).s, old(self).k@)
                && blen(r->Some_0) <= 0x0fff_ffff_ffff_ffff && width_spec(r->Some_0) <= 0x0fff_ffff_ffff_ffff,
            old(self).k@ >= g_count(old(self).s) ==> r is None && final(self).k@ == old(self).k@,
    { unimplemented!() }
}
#[verifier::external_body] pub fn vx_graphemes<'a>(s: &'a str) -> (r: Graphemes<'a>) ensures r.s == s, r.k@ == 0 { unimplemented!() }
#[verifier::external_body] pub fn vx_width(s: &str) -> (r: usize) ensures r == width_spec(s) { unimplemented!() }
#[verifier::external_body] pub fn vx_len(s: &str) -> (r: usize) ensures r == blen(s) { unimplemented!() }
/// `s[i..].trim().is_empty()`: slicing panics unless `i` is a char boundary
#[verifier::external_body] pub fn vx_rest_is_blank(s: &str, i: usize) -> bool requires is_boundary(s, i as int), i <= blen(s) { unimplemented!() }
/// `s[i..].starts_with(pat)`: only the pattern `' '` is known to the model (an ASCII space); for any other pattern
/// (another char, a predicate such as `char::is_whitespace`) the result says nothing about the bytes at `i`
pub trait VxPat { spec fn is_space(&self) -> bool; }
impl VxPat for char { open spec fn is_space(&self) -> bool { *self == ' ' } }
impl<F: Fn(char) -> bool> VxPat for F { open spec fn is_space(&self) -> bool { false } }
#[verifier::external_body] pub fn vx_starts_with<P: VxPat>(s: &str, i: usize, p: P) -> (r: bool) requires is_boundary(s, i as int), i <= blen(s) ensures p.is_space() ==> r == space_at(s, i as int) { unimplemented!() }
/// `s[..i].to_owned()`: width of a prefix that ends at a cluster end, or one ASCII space after one
#[verifier::external_body]
pub fn vx_prefix_owned(s: &str, i: usize) -> (r: String)
    requires is_boundary(s, i as int), i <= blen(s)
    ensures
        forall|k: int| 0 <= k <= g_count(s) && pre_bytes(s, k) == i ==> swidth(r) == #[trigger] pre_width(s, k),
        forall|k: int| 0 <= k <= g_count(s) && pre_bytes(s, k) + 1 == i && space_at(s, i - 1) ==> swidth(r) == #[trigger] pre_width(s, k) + 1,
{ unimplemented!() }
/// `format!("{}{delim}", &s[..i])`
#[verifier::external_body]
pub fn vx_prefix_delim(s: &str, i: usize, delim: &str) -> (r: String)
    requires is_boundary(s, i as int), i <= blen(s)
    ensures forall|k: int| 0 <= k <= g_count(s) && pre_bytes(s, k) == i ==> swidth(r) == #[trigger] pre_width(s, k) + width_spec(delim)
{ unimplemented!() }
#[verifier::external_body] pub fn vx_owned(s: &str) -> (r: String) ensures swidth(r) == width_spec(s) { unimplemented!() }
#[verifier::external_body] pub fn vx_empty() -> (r: String) ensures swidth(r) == 0 { unimplemented!() }

pub trait Cell {
    type Truncated;
    /// C26, from the statement: the output's display width does not exceed the requested width (and no panic)
    fn truncate(&self, width: usize, delim: &str) -> (r: Self::Truncated) ensures Self::tw(r) <= width;
    spec fn tw(t: Self::Truncated) -> nat;
}

//@extract crates/radicle-term/src/cell.rs
//@  impl Cell for str
//@    drop Padded
//@    add
//@      open spec fn tw(t: String) -> nat { swidth(t) }
//@    fn truncate
//@      attr #[verifier::exec_allows_no_decreases_clause]
//@      desugar_for
//@      nloops 1
//@      body_sub Cell::width\( => vx_width(
//@      body_sub self\.graphemes\(true\) => vx_graphemes(self)
//@      body_sub g\.len\(\) => vx_len(g)
//@      body_sub String::new\(\) => vx_empty()
//@      body_sub self\[([^\]\.]+)\.\.\]\.trim\(\)\.is_empty\(\) => vx_rest_is_blank(self, \1)
//@      body_sub self\[([^\]\.]+)\.\.\]\.starts_with\(([^()]*)\) => vx_starts_with(self, \1, \2)
//@      body_sub self\[\.\.([^\]]+)\]\.to_owned\(\) => vx_prefix_owned(self, \1)
//@      body_sub format!\("\{\}\{delim\}", &self\[\.\.([^\]]+)\]\) => vx_prefix_delim(self, \1, delim)
//@      body_sub self\.to_owned\(\) => vx_owned(self)
//@      head
//@        proof { string_model(self); string_model(delim); }
//@      loop 1
//@        invariant_except_break
//@          boundary as int == pre_bytes(self, __vx_it1.k@) && cols as int == pre_width(self, __vx_it1.k@)
//@        invariant
//@          __vx_it1.s == self
//@          0 <= __vx_it1.k@ <= g_count(self)
//@          exists|j: int| 0 <= j <= __vx_it1.k@ && j <= g_count(self) && boundary as int == #[trigger] pre_bytes(self, j) && cols as int == pre_width(self, j)
//@          cols as int + d as int <= width as int
//@          d == width_spec(delim)
//@          pre_bytes(self, g_count(self) as int) == blen(self)
//@          forall|k: int| 0 <= k <= g_count(self) ==> is_boundary(self, #[trigger] pre_bytes(self, k) as int) && pre_bytes(self, k) <= blen(self)
//@          forall|i: int| space_at(self, i) ==> is_boundary(self, i + 1) && i + 1 <= blen(self)
//@          forall|k: int| 0 <= k <= g_count(self) ==> #[trigger] pre_width(self, k) <= 0x0fff_ffff_ffff_ffff
//@          blen(self) <= 0x0fff_ffff_ffff_ffff
//@          d <= 0x0fff_ffff_ffff_ffff
//@end

//@canary
} // verus!
fn main() {}
