// Unit `cob_identity` (C04): identity revisions are voted on by delegates of the current document only, with
// verified signatures, and the current revision is never edited or redacted.
// Real code: Identity::action, Revision::{accept, reject(partly)}, lookup::* (crates/radicle/src/cob/identity.rs).
use vstd::prelude::*;
use std::collections::BTreeMap;
//@include _prelude.rs

verus! {
//@include _panic.rs

// ---- environment (declarations only) ------------------------------------------------------------------
#[derive(Clone, Copy, PartialEq, Eq, PartialOrd, Ord, Debug)] pub struct PublicKey(pub [u8; 32]);
pub type ActorId = PublicKey;
#[derive(Clone, Copy, PartialEq, Eq, PartialOrd, Ord, Debug)] pub struct Did(pub PublicKey);
impl From<PublicKey> for Did { fn from(k: PublicKey) -> (r: Did) ensures r == Did(k) { Did(k) } }
impl vstd::std_specs::convert::FromSpecImpl<PublicKey> for Did { open spec fn obeys_from_spec() -> bool { true } open spec fn from_spec(k: PublicKey) -> Did { Did(k) } }
#[derive(Clone, Copy, PartialEq, Eq, PartialOrd, Ord, Debug)] pub struct Oid(pub [u8; 20]);
pub type EntryId = Oid;
pub type RevisionId = Oid;
#[derive(Clone, Copy, PartialEq, Eq, Debug)] pub struct Signature(pub [u8; 64]);
#[derive(Clone, Copy, PartialEq, Eq, Debug)] pub struct RepoId(pub Oid);
impl std::ops::Deref for RepoId { type Target = Oid; fn deref(&self) -> (r: &Oid) ensures *r == self.0 { &self.0 } }
impl From<Oid> for RepoId { fn from(o: Oid) -> (r: RepoId) ensures r == RepoId(o) { RepoId(o) } }
impl vstd::std_specs::convert::FromSpecImpl<Oid> for RepoId { open spec fn obeys_from_spec() -> bool { true } open spec fn from_spec(o: Oid) -> RepoId { RepoId(o) } }
impl std::ops::Deref for Did { type Target = PublicKey; fn deref(&self) -> (r: &PublicKey) ensures *r == self.0 { &self.0 } }
impl Did { pub fn as_key(&self) -> (r: &PublicKey) ensures *r == self.0 { &self.0 } }
#[derive(Clone, Copy, PartialEq, Eq, Debug)] pub struct Timestamp(pub u64);
#[derive(Clone, PartialEq, Eq, Debug)] pub struct Author { pub id: Did }
impl Author { pub fn public_key(&self) -> (r: &PublicKey) ensures *r == self.id.0 { &self.id.0 } }
impl From<PublicKey> for Author { fn from(k: PublicKey) -> (r: Author) ensures r == (Author { id: Did(k) }) { Author { id: Did(k) } } }
impl vstd::std_specs::convert::FromSpecImpl<PublicKey> for Author { open spec fn obeys_from_spec() -> bool { true } open spec fn from_spec(k: PublicKey) -> Author { Author { id: Did(k) } } }
/// ASSUMED (derive on byte-array newtypes): structural equality, lawful ordering.
#[verifier::external_body]
pub proof fn ids_lawful()
    ensures
        <PublicKey as vstd::std_specs::cmp::PartialEqSpec>::obeys_eq_spec(),
        forall|a: PublicKey, b: PublicKey| #[trigger] vstd::std_specs::cmp::PartialEqSpec::eq_spec(&a, &b) <==> a == b,
        <Oid as vstd::std_specs::cmp::PartialEqSpec>::obeys_eq_spec(),
        forall|a: Oid, b: Oid| #[trigger] vstd::std_specs::cmp::PartialEqSpec::eq_spec(&a, &b) <==> a == b,
        vstd::laws_cmp::obeys_cmp_spec::<Oid>(), vstd::laws_cmp::obeys_cmp_spec::<PublicKey>(), vstd::laws_cmp::obeys_cmp_spec::<Did>(),
{}
/// ASSUMED (derive(PartialEq) on the fieldless enum State): structural equality
impl vstd::std_specs::cmp::PartialEqSpecImpl for State { open spec fn obeys_eq_spec() -> bool { true } open spec fn eq_spec(&self, o: &Self) -> bool { *self == *o } }
pub uninterp spec fn delegate(doc: Doc, did: Did) -> bool;
pub uninterp spec fn sig_ok(key: PublicKey, blob: Oid, sig: Signature) -> bool;
#[derive(Clone, Debug)] pub struct Doc { pub opaque: u64 }
impl Doc {
    /// ASSUMED here, PROVED on the real code in unit `identity`: is_delegate / verify_signature
    #[verifier::external_body]
    pub fn is_delegate(&self, did: &Did) -> (r: bool) ensures r == delegate(*self, *did) { unimplemented!() }
    #[verifier::external_body]
    pub fn verify_signature(&self, key: &PublicKey, signature: &Signature, blob: Oid) -> (r: Result<(), PublicKey>)
        ensures r is Ok <==> (delegate(*self, Did(*key)) && sig_ok(*key, blob, *signature))
    { unimplemented!() }
    #[verifier::external_body] pub fn from_blob(b: &Blob) -> Result<Doc, DocError> { unimplemented!() }
    /// ASSUMED (identity::Doc::load_at): the verified document stored at a commit, with the id of its blob
    #[verifier::external_body]
    pub fn load_at<R: ReadRepository>(commit: Oid, repo: &R) -> (r: Result<DocAt, DocError>) ensures r is Ok ==> r->Ok_0.commit == commit { unimplemented!() }
    #[verifier::external_body] pub fn delegates(&self) -> (r: &Delegates) ensures r.of() == *self { unimplemented!() }
}
pub struct Delegates { pub opaque: u64 }
impl Delegates {
    pub uninterp spec fn of(&self) -> Doc;
    /// ASSUMED (Delegates::first over NonEmpty): the first delegate is a delegate
    #[verifier::external_body] pub fn first(&self) -> (r: &Did) ensures delegate(self.of(), *r) { unimplemented!() }
}
/// `identity::DocAt`
#[derive(Clone, Debug)] pub struct DocAt { pub commit: Oid, pub blob: Oid, pub doc: Doc }
impl std::ops::Deref for DocAt { type Target = Doc; fn deref(&self) -> (r: &Doc) ensures *r == self.doc { &self.doc } }
/// stand-in for `op.actions.into_iter()` over NonEmpty<Action> (a finite sequence; `next` pops the front)
pub struct Actions { pub opaque: u64 }
pub struct ActionsIter { pub opaque: u64 }
impl Actions { #[verifier::external_body] pub fn into_iter(self) -> ActionsIter { unimplemented!() } }
impl ActionsIter { #[verifier::external_body] pub fn next(&mut self) -> Option<Action> { unimplemented!() } }
/// `cob::Op<Action>`
pub struct Op { pub id: EntryId, pub actions: Actions, pub author: ActorId, pub timestamp: Timestamp }
/// stand-in for `assert_eq!(root.commit, op.id)`: the obligation is kept
pub fn vx_assert_commit(a: Oid, b: Oid) requires a == b {}
/// `doc == parent.doc` (PartialEq for Doc): result arbitrary here
#[verifier::external_body] pub fn vx_doc_eq(a: &Doc, b: &Doc) -> bool { unimplemented!() }
pub struct Blob; pub struct DocError;
pub mod git2 { pub struct Error; }
pub mod git_ext { pub struct Error; }
pub trait ReadRepository {
    /// the repository's identifier (ghost)
    spec fn rid(&self) -> RepoId;
    fn id(&self) -> (r: RepoId) ensures r == self.rid();
    fn blob(&self, oid: Oid) -> Result<Blob, git_ext::Error>;
}
pub mod store {
    /// `radicle::cob::store::Cob`: `from_root` only
    pub trait Cob: Sized {
        type Action;
        type Error;
        fn from_root<R: crate::ReadRepository>(op: crate::Op, repo: &R) -> Result<Self, <Self as Cob>::Error>;
    }
}
pub mod cob { pub struct Entry; }
/// ASSUMED (derive(Clone) on Revision): the clone equals the original
#[verifier::external_body] pub fn vx_clone_revision(r: &Revision) -> (c: Revision) ensures c == *r { unimplemented!() }
/// stand-in for `assert_eq!(revision.parent, Some(current.id))` (Option<Oid> equality): the obligation is kept
pub fn vx_assert_parent(parent: Option<RevisionId>, current: RevisionId) requires parent == Some(current) {}

//@extract crates/radicle/src/cob/identity.rs
//@  item enum Action
//@    derive Debug, PartialEq, Eq, Clone
//@  item enum ApplyError
//@    derive
//@    thiserror_from
//@  item enum Verdict
//@    derive Clone, Debug, PartialEq, Eq
//@  item enum State
//@    derive Clone, Copy, Debug, PartialEq, Eq
//@  item struct Revision
//@    derive Clone, Debug
//@  item struct Identity
//@    fields id, current, root, heads, revisions
//@  impl std::ops::Deref for Revision
//@    fn deref
//@      ret r
//@      ensures
//@        *r == self.doc
//@  impl Revision
//@    fn is_accepted
//@      ret r
//@      ensures
//@        r == (self.state == State::Accepted)
//@    fn is_active
//@      ret r
//@      ensures
//@        r == (self.state == State::Active)
//@  impl Revision
//@    add
//@      /// C04: a recorded acceptance by `key` carries a signature by `key` over this revision's blob
//@      pub open spec fn accepted_by(self, key: PublicKey) -> bool {
//@          self.verdicts@.contains_key(key) && (match self.verdicts@[key] { Verdict::Accept(sig) => sig_ok(key, self.blob, sig), _ => false })
//@      }
//@      /// stand-in for Revision::new (BTreeMap::from_iter is outside vstd): ASSUMED to record exactly the author's accepting signature
//@      #[verifier::external_body]
//@      fn new(id: RevisionId, title: String, description: String, author: Author, blob: Oid, doc: Doc, state: State, signature: Signature, parent: Option<RevisionId>, timestamp: Timestamp) -> (r: Self)
//@          ensures r.id == id, r.blob == blob, r.state == state, r.parent == parent, r.author == author,
//@              r.verdicts@ == Map::<PublicKey, Verdict>::empty().insert(author.id.0, Verdict::Accept(signature))
//@      { unimplemented!() }
//@      /// stand-in for `self.rejected().count() > self.delegates().len() - self.majority()` (iterator count): result arbitrary
//@      #[verifier::external_body]
//@      fn vx_cannot_be_accepted(&self) -> bool { unimplemented!() }
//@    fn reject
//@      ret r
//@      body_sub self\.rejected\(\)\.count\(\) > self\.delegates\(\)\.len\(\) - self\.majority\(\) => self.vx_cannot_be_accepted()
//@      ensures
//@        # C04: a recorded verdict is never overwritten -- an acceptance (whose signature keeps counting as a vote in `heads`)
//@        # cannot be turned into a rejection
//@        r is Ok ==> !old(self).verdicts@.contains_key(key) && final(self).verdicts@ == old(self).verdicts@.insert(key, Verdict::Reject) //[C04]
//@        final(self).id == old(self).id && final(self).blob == old(self).blob && final(self).parent == old(self).parent
//@      head
//@        proof { ids_lawful(); }
//@    fn accept
//@      ret r
//@      ensures
//@        # the vote is recorded only with a valid signature of a delegate of the CURRENT document over the new blob
//@        r is Ok ==> delegate(current.doc, Did(author)) && sig_ok(author, old(self).blob, signature) && final(self).accepted_by(author)
//@        r is Ok ==> !old(self).verdicts@.contains_key(author) && final(self).verdicts@ == old(self).verdicts@.insert(author, Verdict::Accept(signature))
//@        final(self).id == old(self).id && final(self).blob == old(self).blob && final(self).state == old(self).state && final(self).parent == old(self).parent
//@      head
//@        proof { ids_lawful(); }
//@  mod lookup
//@    wrap
//@    fn revision_mut
//@      rename_ident revision => revision_
//@      ret r
//@      ensures
//@        r is Ok && r->Ok_0 is Some ==> old(revisions)@.contains_key(*revision_) && old(revisions)@[*revision_] == Some(*r->Ok_0->Some_0)
//@        r is Ok && r->Ok_0 is Some ==> final(revisions)@ == old(revisions)@.insert(*revision_, Some(*final(r->Ok_0->Some_0)))
//@        !(r is Ok && r->Ok_0 is Some) ==> final(revisions)@ == old(revisions)@
//@      head
//@        proof { ids_lawful(); }
//@    fn revision
//@      rename_ident revision => revision_
//@      ret r
//@      ensures
//@        r is Ok && r->Ok_0 is Some ==> revisions@.contains_key(*revision_) && revisions@[*revision_] == Some(*r->Ok_0->Some_0)
//@      head
//@        proof { ids_lawful(); }
//@  impl Identity
//@    add
//@      /// the current revision (ghost)
//@      pub open spec fn cur(self) -> Revision { self.revisions@[self.current]->Some_0 }
//@      /// representation invariant (ASSUMED of every Identity value; its preservation by `adopt` is not verified):
//@      /// the current revision exists; revisions are stored under their id; active revisions build on the current one
//@      pub open spec fn wf(self) -> bool {
//@          &&& self.revisions@.contains_key(self.current) && self.revisions@[self.current] is Some && self.revisions@[self.current]->Some_0.state != State::Active
//@          &&& forall|id: RevisionId| self.revisions@.contains_key(id) && (#[trigger] self.revisions@[id]) is Some ==> self.revisions@[id]->Some_0.id == id
//@          &&& forall|id: RevisionId| self.revisions@.contains_key(id) && (#[trigger] self.revisions@[id]) is Some && self.revisions@[id]->Some_0.state == State::Active
//@                  ==> self.revisions@[id]->Some_0.parent == Some(self.current)
//@      }
//@      /// C04 ("have each recorded a valid signature"): every vote that `adopt` counts -- a head pointing at a revision -- is
//@      /// backed by a valid signature of that key over that revision's blob, recorded in the revision's verdicts
//@      pub open spec fn votes_backed(self) -> bool {
//@          forall|d: Did| #[trigger] self.heads@.contains_key(d) ==> self.revisions@.contains_key(self.heads@[d])
//@              && (self.revisions@[self.heads@[d]] matches Some(r) ==> r.accepted_by(d.0))
//@      }
//@      /// C04: some delegate of document `doc` has recorded a valid signature on revision `id`
//@      pub open spec fn voted(self, doc: Doc, id: RevisionId) -> bool {
//@          self.revisions@.contains_key(id) && self.revisions@[id] is Some
//@              && exists|k: PublicKey| delegate(doc, Did(k)) && #[trigger] self.revisions@[id]->Some_0.accepted_by(k) && self.heads@.contains_key(Did(k)) && self.heads@[Did(k)] == id
//@      }
//@      /// stand-in for Identity::current (Option::expect over an `and_then` closure): ASSUMED to return the current revision
//@      #[verifier::external_body]
//@      pub fn current(&self) -> (r: &Revision) requires self.wf() ensures *r == self.cur() { unimplemented!() }
//@      /// SINK: Identity::adopt counts the heads on `id` against the majority of the current document (iterator
//@      /// adapters: NOT verified) and may make `id` current. It may only be invoked for a revision that builds on
//@      /// the current one and on which a delegate of the current document has recorded a valid signature.
//@      /// ASSUMED (by inspection of its two assignments): `current` stays or becomes `id`; verdicts and heads are untouched.
//@      #[verifier::external_body]
//@      fn adopt(&mut self, id: RevisionId)
//@          requires
//@              old(self).voted(old(self).cur().doc, id),
//@              // C04: "never replaced by one that is not its successor"
//@              id == old(self).current || (old(self).revisions@.contains_key(id) && old(self).revisions@[id] is Some && old(self).revisions@[id]->Some_0.parent == Some(old(self).current)), //[C04]
//@          ensures
//@              final(self).current == old(self).current || final(self).current == id,
//@              final(self).heads == old(self).heads,
//@              final(self).revisions@.dom() == old(self).revisions@.dom(),
//@              forall|i: RevisionId| old(self).revisions@.contains_key(i) && (#[trigger] old(self).revisions@[i]) is Some ==> final(self).revisions@[i] is Some && final(self).revisions@[i]->Some_0.verdicts == old(self).revisions@[i]->Some_0.verdicts && final(self).revisions@[i]->Some_0.blob == old(self).revisions@[i]->Some_0.blob,
//@              forall|i: RevisionId| old(self).revisions@.contains_key(i) && (#[trigger] old(self).revisions@[i]) is None ==> final(self).revisions@[i] is None,
//@      { unimplemented!() }
//@      /// stand-in for Identity::new (iterator adapters, BTreeMap::from_iter): ASSUMED (by inspection of its struct literal) to
//@      /// take the identifier from the revision's blob and to make the revision root and current
//@      #[verifier::external_body]
//@      pub fn new(revision: Revision) -> (r: Self) ensures r.id == RepoId(revision.blob), r.root == revision.id, r.current == revision.id { unimplemented!() }
//@    fn action
//@      desugar_try
//@      ret r
//@      body_sub self\.current\(\)\.clone\(\) => vx_clone_revision(self.current())
//@      body_sub assert_eq!\(revision\.parent, Some\(current\.id\)\); => vx_assert_parent(revision.parent, current.id);
//@      body_sub doc == parent\.doc => vx_doc_eq(&doc, &parent.doc)
//@      hint 1 self\.adopt\(id\);
//@        assert(self.votes_backed());
//@        assert(self.revisions@.contains_key(id) && self.revisions@[id] is Some);
//@        assert(self.revisions@[id]->Some_0.accepted_by(author));
//@        assert(self.heads@.contains_key(Did(author)) && self.heads@[Did(author)] == id);
//@        assert(self.cur().doc == current.doc);
//@        assert(self.voted(self.cur().doc, id));
//@      hint 2 self\.adopt\(id\);
//@        assert(self.revisions@.contains_key(id) && self.revisions@[id] is Some);
//@        assert(current.id == old(self).current);
//@        assert(self.revisions@[id]->Some_0.parent == Some(self.current));
//@        assert(self.revisions@[id]->Some_0.accepted_by(author));
//@        assert(self.heads@.contains_key(Did(author)) && self.heads@[Did(author)] == id);
//@        assert(self.cur().doc == current.doc);
//@        assert(self.voted(self.cur().doc, id));
//@      hint 1 \}\s*Action::RevisionReject \{ revision \} =>
//@        assert(self.votes_backed());
//@        assert(self.revisions@.contains_key(id) && self.revisions@[id] is Some);
//@        assert(self.revisions@[id]->Some_0.accepted_by(author));
//@        assert(self.heads@.contains_key(Did(author)) && self.heads@[Did(author)] == id);
//@        assert(self.current == old(self).current || self.voted(old(self).cur().doc, self.current));
//@      hint 1 \}\n            \}\n        \}\n        Ok\(\(\)\)
//@        assert(self.revisions@.contains_key(id) && self.revisions@[id] is Some);
//@        assert(self.revisions@[id]->Some_0.accepted_by(author));
//@        assert(self.heads@.contains_key(Did(author)) && self.heads@[Did(author)] == id);
//@        assert(self.current == old(self).current || self.voted(old(self).cur().doc, self.current));
//@      requires
//@        old(self).wf()
//@        old(self).votes_backed()
//@        action is Revision ==> !old(self).revisions@.contains_key(entry)
//@      ensures
//@        # actions by keys that are not delegates of the current document never change the identity
//@        !delegate(old(self).cur().doc, Did(author)) ==> r is Err
//@        # the current (accepted) revision is never redacted or edited
//@        (action matches Action::RevisionRedact { revision } && revision == old(self).current) ==> r is Err
//@        (action matches Action::RevisionEdit { revision, .. } && revision == old(self).current) ==> r is Err
//@        # the current revision changes only to one on which a delegate of the replaced document recorded a valid signature
//@        r is Ok ==> final(self).current == old(self).current || final(self).voted(old(self).cur().doc, final(self).current)
//@        # every counted vote stays backed by a recorded valid signature
//@        r is Ok ==> final(self).votes_backed() //[C04]
//@      head
//@        proof { ids_lawful(); }
//@  impl store::Cob for Identity
//@    drop op
//@    fn from_root
//@      ret r
//@      body_sub assert_eq!\(root\.commit, op\.id\); => vx_assert_commit(root.commit, op.id);
//@      ensures
//@        # C19: an identity read from git is accepted only in the repository whose id is the blob id of its root document
//@        r is Ok ==> r->Ok_0.id == repo.rid() //[C19]
//@        # ... and its root and current revision are the operation itself
//@        r is Ok ==> r->Ok_0.root == op.id && r->Ok_0.current == op.id
//@      head
//@        proof { ids_lawful(); }
//@end

//@canary
} // verus!
fn main() {}
