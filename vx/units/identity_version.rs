// Unit `identity_version` (C19): an identity document is accepted only with a supported version -- the number that was
// read, not some other number derived from it.
// Real code: Version::new, <Version as Deserialize>::deserialize (crates/radicle/src/identity/doc.rs).
use vstd::prelude::*;
//@include _prelude.rs

verus! {
//@include _panic.rs

// ---- environment (declarations only) ------------------------------------------------------------------
/// stand-in for core::num::NonZeroU32 (vstd has no specification for it): a non-zero u32, ordered by value
#[derive(Debug, Clone, Copy, PartialEq, Eq)] pub struct NonZeroU32 { pub n: u32 }
impl NonZeroU32 {
    pub fn new(n: u32) -> (r: Option<NonZeroU32>) ensures (r is Some) == (n != 0), r is Some ==> r->Some_0.n == n { if n != 0 { Some(NonZeroU32 { n }) } else { None } }
    /// stand-in for `a > b` on NonZeroU32 (PartialOrd by value)
    pub fn vx_gt(self, o: NonZeroU32) -> (r: bool) ensures r == (self.n > o.n) { self.n > o.n }
}
/// the latest supported version (doc.rs: `IDENTITY_VERSION`, built with an `unsafe` constructor): ASSUMED to be 1
pub open spec fn latest() -> u32 { 1 }
pub fn vx_identity_version() -> (r: NonZeroU32) ensures r.n == latest() { NonZeroU32 { n: 1 } }
/// C19, from the statement: the supported versions
pub open spec fn supported(v: int) -> bool { 1 <= v <= latest() }

/// serde: a deserializer holds (ghost) the number it is about to yield; the primitive reads return it when it fits
pub mod de { pub trait Error: Sized {} }
pub trait Deserializer<'de>: Sized {
    type Error: de::Error;
    spec fn number(&self) -> int;
}
/// ASSUMED (serde): `uN::deserialize` yields the number in the input if it fits the type, an error otherwise
#[verifier::external_body] pub fn vx_de_u8<'de, D: Deserializer<'de>>(d: D) -> (r: Result<u8, D::Error>) ensures r is Ok ==> r->Ok_0 as int == d.number() { unimplemented!() }
#[verifier::external_body] pub fn vx_de_u16<'de, D: Deserializer<'de>>(d: D) -> (r: Result<u16, D::Error>) ensures r is Ok ==> r->Ok_0 as int == d.number() { unimplemented!() }
#[verifier::external_body] pub fn vx_de_u32<'de, D: Deserializer<'de>>(d: D) -> (r: Result<u32, D::Error>) ensures r is Ok ==> r->Ok_0 as int == d.number() { unimplemented!() }
#[verifier::external_body] pub fn vx_de_u64<'de, D: Deserializer<'de>>(d: D) -> (r: Result<u64, D::Error>) ensures r is Ok ==> r->Ok_0 as int == d.number() { unimplemented!() }
/// ASSUMED (core): Result::and_then applies the closure to an Ok value and passes an Err through
pub assume_specification<T, E, U, F: FnOnce(T) -> Result<U, E>>[Result::<T, E>::and_then](r0: Result<T, E>, f: F) -> (r: Result<U, E>)
    requires r0 is Ok ==> f.requires((r0->Ok_0,))
    ensures r0 is Ok ==> f.ensures((r0->Ok_0,), r), r0 is Err ==> r is Err;
/// stand-in for `de::Error::custom(e.to_string())`
#[verifier::external_body] pub fn vx_custom<E: de::Error>(e: VersionError) -> E { unimplemented!() }
pub trait Deserialize<'de>: Sized {
    /// ghost: the number a value stands for
    spec fn num(&self) -> int;
    fn deserialize<D>(deserializer: D) -> (r: Result<Self, D::Error>) where D: Deserializer<'de>
        // C19: what is accepted is the number that was read, and it is a supported version
        ensures r is Ok ==> r->Ok_0.num() == deserializer.number() && supported(r->Ok_0.num()); //[C19]
}

//@extract crates/radicle/src/identity/doc.rs
//@  item struct Version
//@    derive Debug, Clone, Copy, PartialEq, Eq
//@  item enum VersionError
//@    derive Debug
//@  impl Version
//@    drop number, is_valid_version, skip_serializing
//@    fn new
//@      ret r
//@      body_sub n > IDENTITY_VERSION\.into\(\) => n.vx_gt(vx_identity_version())
//@      ensures
//@        # C19: exactly the supported versions are accepted, as they are
//@        r is Ok <==> supported(n as int) //[C19]
//@        r is Ok ==> r->Ok_0.0.n == n
//@  impl <'de> Deserialize<'de> for Version
//@    add
//@      open spec fn num(&self) -> int { self.0.n as int }
//@    fn deserialize
//@      sig serde::Deserializer<'de> => Deserializer<'de>
//@      # the serde read and the closure keep their text; the read is a stand-in per integer width, the closure gets its contract in place
//@      body_sub (?s)(u8|u16|u32|u64)::deserialize\(deserializer\)\s*\.and_then\(\|v\| => vx_de_\1(deserializer).and_then(|v: \1| -> (o: Result<Version, D::Error>) ensures o is Ok ==> o->Ok_0.0.n as int == v as int && supported(v as int) {
//@      body_sub \.map_err\(\|e\| de::Error::custom\(e\.to_string\(\)\)\)\) => .map_err(|e: VersionError| -> (x: D::Error) { vx_custom(e) }) })
//@end

//@canary
} // verus!
fn main() {}
