// Unit `ssh` (C27): the SSH agent client never panics on any agent response. Real code:
// crates/radicle-ssh/src/encoding.rs (Cursor) and agent/client.rs (request_identities, sign, read_signature).
use vstd::prelude::*;
use std::fmt;
//@include _prelude.rs
//@alloc_budget

verus! {
//@include _panic.rs

/// ASSUMED: 64-bit target (usize is 8 bytes), as for every supported radicle platform.
global size_of usize == 8;
/// language guarantee used as a precondition below: no slice is longer than isize::MAX bytes
pub open spec fn slice_len_ok(s: Seq<u8>) -> bool { s.len() <= 0x7fff_ffff_ffff_ffff }
/// cursor positions are created by `reader(0|1)` and only advance within the slice
pub open spec fn cursor_ok(c: Cursor) -> bool { slice_len_ok(c.s@) && c.position <= c.s@.len() + 1 }

// ---- environment -------------------------------------------------------------------------------------
/// ASSUMED: `zeroize::Zeroizing<Vec<u8>>` is transparent (Deref/DerefMut to the vector; zeroes on drop only).
pub type Buffer = Vec<u8>;
pub mod encoding { pub use crate::{Error, Cursor, Encodable, Encoding, Reader}; }
pub mod msg {
    pub const REQUEST_IDENTITIES: u8 = 11;
    pub const IDENTITIES_ANSWER: u8 = 12;
    pub const SIGN_REQUEST: u8 = 13;
    pub const SIGN_RESPONSE: u8 = 14;
    pub const FAILURE: u8 = 5;
}
pub struct BigEndian;
impl BigEndian {
    /// ASSUMED (byteorder): BigEndian::read_u32 reads the first four bytes; it panics on shorter input, hence the precondition.
    #[verifier::external_body]
    pub fn read_u32(b: &[u8]) -> (r: u32) requires b@.len() >= 4 { unimplemented!() }
}
/// message-building side (not part of C27): opaque stand-ins
pub trait Encoding { fn write_len(&mut self); }
impl Encoding for Vec<u8> { #[verifier::external_body] fn write_len(&mut self) { unimplemented!() } }
#[verifier::external_body]
pub fn vx_new_request(kind: u8) -> Buffer { unimplemented!() }
/// ASSUMED (core): copy_from_slice panics unless both slices have the same length, hence the precondition.
#[verifier::external_body]
pub fn vx_copy_from_slice(dst: &mut [u8; 64], src: &[u8]) requires src@.len() == 64 { dst.copy_from_slice(src) }

#[derive(Debug)]
pub enum ClientError { AgentProtocolError, AgentFailure, Encoding(Error), Other }
impl From<Error> for ClientError { fn from(e: Error) -> Self { ClientError::Encoding(e) } }
impl vstd::std_specs::convert::FromSpecImpl<Error> for ClientError { open spec fn obeys_from_spec() -> bool { true } open spec fn from_spec(e: Error) -> Self { ClientError::Encoding(e) } }
pub type Signature = [u8; 64];

/// the connection to the agent: ANY bytes may come back
pub trait ClientStream: Sized {
    fn request(&mut self, req: &[u8]) -> (r: Result<Buffer, ClientError>)
        ensures r is Ok ==> slice_len_ok(r->Ok_0@); // language guarantee on the returned vector
}

//@extract crates/radicle-ssh/src/encoding.rs
//@  item enum Error
//@    derive Debug
//@  trait Encodable
//@    # the `std::error::Error` bound of the associated error type is dropped (external trait unknown to Verus)
//@    const_sub type Error: std::error::Error \+ Send \+ Sync \+ 'static; => type Error;
//@    fn read
//@  trait Reader
//@    fn reader
//@      ret c
//@      ensures
//@        c.s@ == self.bytes()
//@        c.position == starting_at
//@    add
//@      spec fn bytes(&self) -> Seq<u8>;
//@  impl Reader for Buffer
//@    add
//@      open spec fn bytes(&self) -> Seq<u8> { self@ }
//@    fn reader
//@  impl Reader for [u8]
//@    add
//@      open spec fn bytes(&self) -> Seq<u8> { self@ }
//@    fn reader
//@  item struct Cursor
//@    derive Debug
//@  impl <'a> Cursor<'a>
//@    fn read_string
//@      desugar_try
//@      ret r
//@      requires
//@        cursor_ok(*old(self))
//@      ensures
//@        cursor_ok(*final(self))
//@        final(self).s == old(self).s
//@        r is Ok ==> r->Ok_0@.len() + old(self).position + 4 <= old(self).s@.len() && final(self).position == old(self).position + 4 + r->Ok_0@.len()
//@        r is Ok ==> slice_len_ok(r->Ok_0@)
//@    fn read_u32
//@      ret r
//@      requires
//@        cursor_ok(*old(self))
//@      ensures
//@        cursor_ok(*final(self))
//@        final(self).s == old(self).s
//@        r is Ok ==> old(self).position + 4 <= old(self).s@.len() && final(self).position == old(self).position + 4
//@        r is Err ==> final(self).position == old(self).position
//@    fn read_byte
//@      ret r
//@      requires
//@        cursor_ok(*old(self))
//@      ensures
//@        cursor_ok(*final(self))
//@        final(self).s == old(self).s
//@        r is Ok ==> old(self).position < old(self).s@.len() && final(self).position == old(self).position + 1
//@    fn read_mpint
//@      desugar_try
//@      requires
//@        cursor_ok(*old(self))
//@end

//@extract crates/radicle-ssh/src/agent/client.rs
//@  item struct AgentClient
//@  impl <S: ClientStream> AgentClient<S>
//@    fn request_identities
//@      attr #[verifier::exec_allows_no_decreases_clause]
//@      desugar_try
//@      sig (?<![:\w])Error\b => ClientError
//@      body_sub (?s)let mut buf = Buffer::default\(\);.*?buf\.write_len\(\); => let buf = vx_new_request(msg::REQUEST_IDENTITIES);
//@      loop 1
//@        invariant
//@          cursor_ok(r)
//@    fn sign
//@      desugar_try
//@      sig Error => ClientError
//@      body_sub Error:: => ClientError::
//@      body_sub self\.prepare_sign_request\(public, data\) => vx_new_request(msg::SIGN_REQUEST)
//@    fn read_signature
//@      desugar_try
//@      requires
//@        slice_len_ok(sig@)
//@      sig Error => ClientError
//@      body_sub? (?<![:\w])Error:: => ClientError::
//@      body_sub out\.copy_from_slice\(sig\) => vx_copy_from_slice(&mut out, sig)
//@end

//@canary
} // verus!
fn main() {}
