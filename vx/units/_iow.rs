// ---- std::io::Write model (inside verus!) -------------------------------------------------------------
/// ASSUMED (std::io::Write): a writer is a ghost byte string `written()`; `write_all(buf)` either appends all of
/// `buf` or fails (after a failure nothing is known about what was written).
#[verifier::external_trait_specification]
#[verifier::external_trait_extension(WriteSpec via WriteSpecImpl)]
pub trait ExWrite {
    type ExternalTraitSpecificationFor: std::io::Write;
    spec fn written(&self) -> Seq<u8>;
    fn write(&mut self, buf: &[u8]) -> (r: Result<usize, std::io::Error>);
    fn flush(&mut self) -> (r: Result<(), std::io::Error>);
    fn write_all(&mut self, buf: &[u8]) -> (r: Result<(), std::io::Error>)
        ensures r is Ok ==> final(self).written() =~= old(self).written() + buf@,
            // ASSUMED (machine arithmetic): the number of bytes a writer has accepted fits in usize
            r is Ok ==> final(self).written().len() <= usize::MAX;
}
