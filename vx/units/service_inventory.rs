// Unit `service_inventory` (C11, second sentence): private repositories never enter the inventory message the node
// announces. Real code: Service::initialize (crates/radicle-node/src/service.rs) -- the loop that sorts local
// repositories into `inventory` / `private` and the construction of the cached inventory message.
#![feature(allocator_api)]
use vstd::prelude::*;
use std::collections::{BTreeSet, HashMap, HashSet};
//@include _prelude.rs

verus! {
//@include _panic.rs

// ---- environment (declarations only) --------------------------------------------------------------------------------
#[derive(Clone, Copy, PartialEq, Eq, PartialOrd, Ord, Hash, Debug)] pub struct NodeId(pub [u8; 32]);
#[derive(Clone, Copy, PartialEq, Eq, PartialOrd, Ord, Hash, Debug)] pub struct RepoId(pub [u8; 20]);
/// ASSUMED (derive(Ord/Hash/Eq) on byte-array newtypes): lawful order, so BTreeSet<RepoId> is a mathematical set
#[verifier::external_body]
pub proof fn rids_lawful() ensures vstd::laws_cmp::obeys_cmp_spec::<RepoId>() {}
#[derive(Clone, Copy, PartialEq, Eq, Debug)] pub struct Oid(pub [u8; 20]);
impl vstd::std_specs::cmp::PartialEqSpecImpl for Oid { open spec fn obeys_eq_spec() -> bool { true } open spec fn eq_spec(&self, o: &Self) -> bool { *self == *o } }
#[derive(Clone, Copy, PartialEq, Eq, Debug)] pub struct LocalTime { pub ms: u64 }
/// ASSUMED (localtime): the default LocalTime is the epoch
impl Default for LocalTime { fn default() -> (r: LocalTime) ensures r == (LocalTime { ms: 0 }) { LocalTime { ms: 0 } } }
impl vstd::std_specs::cmp::PartialEqSpecImpl for LocalTime { open spec fn obeys_eq_spec() -> bool { true } open spec fn eq_spec(&self, o: &Self) -> bool { *self == *o } }
impl LocalTime { #[verifier::external_body] pub fn as_millis(&self) -> u64 { unimplemented!() } }
#[derive(Clone, Copy, Debug)] pub struct LocalDuration { pub ms: u64 }
pub const IDLE_INTERVAL: LocalDuration = LocalDuration { ms: 30_000 };
pub const GOSSIP_INTERVAL: LocalDuration = LocalDuration { ms: 6_000 };
#[derive(Clone, Copy, PartialEq, Eq, Debug)] pub struct Timestamp(pub u64);
impl Timestamp { #[verifier::external_body] pub fn to_local_time(&self) -> LocalTime { unimplemented!() } }
impl From<LocalTime> for Timestamp { #[verifier::external_body] fn from(t: LocalTime) -> Self { unimplemented!() } }
pub struct Error;
pub struct DbError; impl From<DbError> for Error { #[verifier::external_body] fn from(e: DbError) -> Self { unimplemented!() } }
pub struct StorageError; impl From<StorageError> for Error { #[verifier::external_body] fn from(e: StorageError) -> Self { unimplemented!() } }
pub struct PolicyError; impl From<PolicyError> for Error { #[verifier::external_body] fn from(e: PolicyError) -> Self { unimplemented!() } }
pub mod crypto { pub struct Signature; pub mod signature { pub trait Signer<T> {} } }
pub struct Device<G>(pub G);
pub trait Store {}

/// ghost: the identity document of this repository, as stored locally, is public
pub uninterp spec fn public(rid: RepoId) -> bool;
pub struct Doc { pub opaque: u8 }
impl Doc {
    pub uninterp spec fn pub_spec(self) -> bool;
    /// Doc::is_public (visibility == Public; proved against its definition in unit `identity`)
    #[verifier::external_body] pub fn is_public(&self) -> (r: bool) ensures r == self.pub_spec() { unimplemented!() }
}
#[derive(Clone, Copy)] pub struct SyncedAt { pub oid: Oid, pub timestamp: LocalTime }
pub struct RepositoryInfo { pub rid: RepoId, pub doc: Doc, pub synced_at: Option<SyncedAt> }
/// stand-in for `Vec<RepositoryInfo>::into_iter()`
pub struct VxInfos { pub opaque: u8 }
impl VxInfos {
    /// ASSUMED (ReadStorage::repositories): each entry carries the identity document of its own repository id
    #[verifier::external_body]
    pub fn next(&mut self) -> (r: Option<RepositoryInfo>) ensures r is Some ==> r->Some_0.doc.pub_spec() == public(r->Some_0.rid) { unimplemented!() }
}
pub trait ReadStorage { fn repositories(&self) -> Result<VxInfos, StorageError>; }
pub struct Announcement { pub opaque: u8 }
pub struct RefsAt;
pub mod gossip {
    use vstd::prelude::*;
    use crate::*;
    pub struct Store;
    impl Store {
        #[verifier::external_body] pub fn last(&self) -> Result<Option<Timestamp>, DbError> { unimplemented!() }
        #[verifier::external_body] pub fn announced(&mut self, nid: &NodeId, ann: &Announcement) -> Result<Option<u64>, DbError> { unimplemented!() }
    }
    /// a collection of repository ids handed to `gossip::inventory` (`impl IntoIterator<Item = RepoId>`)
    pub trait VxRids { spec fn rids(&self) -> Set<RepoId>; }
    impl VxRids for BTreeSet<RepoId> { open spec fn rids(&self) -> Set<RepoId> { self@ } }
    impl VxRids for HashSet<RepoId> { open spec fn rids(&self) -> Set<RepoId> { self@ } }
    /// SINK (C11): builds the inventory message that the node signs and sends to every peer, unfiltered.
    #[verifier::external_body]
    pub fn inventory<I: VxRids>(timestamp: Timestamp, inv: I) -> (r: InventoryAnnouncement)
        requires forall|rid: RepoId| inv.rids().contains(rid) ==> public(rid)   //[C11]
    { unimplemented!() }
}
pub struct InventoryAnnouncement { pub opaque: u8 }
pub mod refsdb { use crate::*; pub struct Store;
    impl Store {
        #[verifier::external_body] pub fn count(&self) -> Result<usize, DbError> { unimplemented!() }
        #[verifier::external_body] pub fn populate<S>(&mut self, s: &S) -> Result<(), DbError> { unimplemented!() }
    } }
pub mod seeds { use crate::*; pub struct Store;
    impl Store {
        #[verifier::external_body] pub fn synced(&mut self, rid: &RepoId, nid: &NodeId, at: Oid, ts: Timestamp) -> Result<bool, DbError> { unimplemented!() }
    } }
pub mod routing { use crate::*; pub struct Store;
    impl Store {
        /// routing table writes: arbitrary effect (the table is SQL; what it returns later is not relied upon here)
        #[verifier::external_body] pub fn add_inventory(&mut self, rids: std::collections::btree_set::Iter<'_, RepoId>, nid: NodeId, ts: Timestamp) -> Result<Vec<(RepoId, u8)>, DbError> { unimplemented!() }
        #[verifier::external_body] pub fn remove_inventories(&mut self, rids: std::collections::btree_set::Iter<'_, RepoId>, nid: &NodeId) -> Result<(), DbError> { unimplemented!() }
        #[verifier::external_body] pub fn get_inventory(&self, nid: &NodeId) -> Result<HashSet<RepoId>, DbError> { unimplemented!() }
    } }
pub struct Stores<D>(pub D);
impl<D> Stores<D> {
    #[verifier::external_body] pub fn gossip(&self) -> &gossip::Store { unimplemented!() }
    #[verifier::external_body] pub fn gossip_mut(&mut self) -> &mut gossip::Store { unimplemented!() }
    #[verifier::external_body] pub fn refs(&self) -> &refsdb::Store { unimplemented!() }
    #[verifier::external_body] pub fn refs_mut(&mut self) -> &mut refsdb::Store { unimplemented!() }
    #[verifier::external_body] pub fn seeds_mut(&mut self) -> &mut seeds::Store { unimplemented!() }
    #[verifier::external_body] pub fn routing(&self) -> &routing::Store { unimplemented!() }
    #[verifier::external_body] pub fn routing_mut(&mut self) -> &mut routing::Store { unimplemented!() }
}
pub struct Address;
#[derive(Clone)] pub struct VxConnect { pub opaque: u8 }
pub struct VxPairs { pub opaque: u8 }
impl VxPairs { #[verifier::external_body] pub fn next(&mut self) -> Option<(NodeId, Address)> { unimplemented!() } }
/// stand-in for `addrs.into_iter().map(|ca| ca.into())` over the configured peers
#[verifier::external_body] pub fn vx_addr_pairs(c: VxConnect) -> VxPairs { unimplemented!() }
pub struct Config { pub connect: VxConnect }
pub struct Write;
pub mod policy { pub use crate::Policies as Config; }
pub struct Policies<T>(pub T);
impl<T> Policies<T> { #[verifier::external_body] pub fn is_seeding(&self, rid: &RepoId) -> Result<bool, PolicyError> { unimplemented!() } }
pub struct Filter;
pub struct Outbox;
impl Outbox { #[verifier::external_body] pub fn wakeup(&mut self, d: LocalDuration) { unimplemented!() } }
/// stand-in for `self.db.seeds().seeded_by(&nid)?.collect::<Result<HashMap<_, _>, _>>()?` (boxed dyn iterator)
#[verifier::external_body]
pub fn vx_seeded_by<D>(db: &Stores<D>, nid: &NodeId) -> Result<HashMap<RepoId, SyncedAt>, Error> { unimplemented!() }

//@extract crates/radicle-node/src/service.rs
//@  item struct Service
//@    fields config, signer, storage, db, policies, outbox, clock, started_at, last_online_at, inventory, filter
//@  impl <D, S, G> Service<D, S, G> where D: Store, S: ReadStorage + 'static, G: crypto::signature::Signer<crypto::Signature>,
//@    add
//@      #[verifier::external_body] pub fn node_id(&self) -> NodeId { unimplemented!() }
//@      #[verifier::external_body] pub fn nid(&self) -> &NodeId { unimplemented!() }
//@      /// Service::timestamp (unit service_time)
//@      #[verifier::external_body] fn timestamp(&mut self) -> (r: Timestamp) ensures final(self).storage == old(self).storage { unimplemented!() }
//@      #[verifier::external_body] fn refs_announcement_for(&mut self, rid: RepoId, remotes: [NodeId; 1]) -> Result<(Announcement, Vec<RefsAt>), Error> { unimplemented!() }
//@      /// stand-ins for the tail of initialize (subscription filter from the seeding policies, configured connections):
//@      /// no inventory involved
//@      #[verifier::external_body] fn vx_setup_filter(&mut self) -> Result<(), Error> { unimplemented!() }
//@      #[verifier::external_body] fn connect(&mut self, nid: NodeId, addr: Address) -> bool { unimplemented!() }
//@      #[verifier::external_body] fn maintain_connections(&mut self) { unimplemented!() }
//@    fn inventory
//@      desugar_try
//@      body_sub (?s)self\.db\s*\.routing\(\)\s*\.get_inventory\(self\.nid\(\)\)\s*\.map_err\(Error::from\) => self.db.routing().get_inventory(self.nid()).map_err(|e| -> (o: Error) { Error::from(e) })
//@    fn initialize
//@      attr #[verifier::exec_allows_no_decreases_clause]
//@      desugar_try
//@      desugar_for
//@      nloops 2
//@      body_sub (?s)self\s*\.db\s*\.seeds\(\)\s*\.seeded_by\(&nid\)\?\s*\.collect::<Result<HashMap<_, _>, _>>\(\)\? => vx_seeded_by(&self.db, &nid)?
//@      body_sub (?s)self\.filter = Filter::new\(\s*self\.policies\s*\.seed_policies\(\)\?\s*\.filter_map\(\|t\| \(t\.policy\.is_allow\(\)\)\.then_some\(t\.rid\)\),\s*\); => self.vx_setup_filter()?;
//@      body_sub addrs\.into_iter\(\)\.map\(\|ca\| ca\.into\(\)\) => vx_addr_pairs(addrs)
//@      requires
//@        # documented API precondition (`assert_ne!(time, LocalTime::default())`): local input, not a remote peer's
//@        time.ms != 0
//@      head
//@        proof { rids_lawful(); }
//@      loop 1
//@        invariant
//@          vstd::laws_cmp::obeys_cmp_spec::<RepoId>()
//@          # C11: only repositories whose document is public are collected for the inventory message
//@          forall|rid: RepoId| inventory@.contains(rid) ==> public(rid) //[C11]
//@end

//@canary
} // verus!
fn main() {}
