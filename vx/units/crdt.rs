// Unit `crdt` (C22): radicle-crdt merge surface, extracted verbatim, against a
// join specification written from the property statement.
use vstd::prelude::*;
use vstd::std_specs::cmp::{PartialOrdSpec, PartialEqSpec};
use std::cmp;
use vstd::std_specs::convert::{FromSpec, FromSpecImpl, IntoSpec};
use std::ops;
use std::ops::Deref;
use std::collections::BTreeMap;
use std::collections::btree_map::{Entry, IntoIter, IntoKeys};

verus! {

// ---- environment: opaque stand-ins ------------------------------------------
/// only used as a default type parameter of LWWReg/LWWMap/LWWSet
pub mod clock { pub struct Lamport; }

// ---- ghost vocabulary -------------------------------------------------------
/// `T`'s executable comparison is a total order that agrees with spec equality.
pub open spec fn pc<T: PartialOrd>(a: T, b: T) -> Option<cmp::Ordering> { a.partial_cmp_spec(&b) }
pub open spec fn total_order<T: PartialOrd>() -> bool {
    &&& T::obeys_partial_cmp_spec()
    &&& T::obeys_eq_spec()
    &&& forall|a: T, b: T| #[trigger] a.eq_spec(&b) <==> a == b
    &&& forall|a: T, b: T| #![trigger a.partial_cmp_spec(&b)] a.partial_cmp_spec(&b).is_some()
    &&& forall|a: T, b: T| #![trigger a.partial_cmp_spec(&b)] (a.partial_cmp_spec(&b) == Some(cmp::Ordering::Equal) <==> a == b)
    &&& forall|a: T, b: T| #![trigger a.partial_cmp_spec(&b)] (a.partial_cmp_spec(&b) == Some(cmp::Ordering::Less) <==> b.partial_cmp_spec(&a) == Some(cmp::Ordering::Greater))
    &&& forall|a: T, b: T, c: T| #![trigger a.partial_cmp_spec(&b), b.partial_cmp_spec(&c)]
            a.partial_cmp_spec(&b) == Some(cmp::Ordering::Less) && b.partial_cmp_spec(&c) == Some(cmp::Ordering::Less)
            ==> a.partial_cmp_spec(&c) == Some(cmp::Ordering::Less)
}

pub open spec fn into_ok<A: Into<B>, B>(a: A) -> bool { <A as IntoSpec<B>>::obeys_into_spec() }
pub open spec fn into_v<A: Into<B>, B>(a: A) -> B { IntoSpec::<B>::into_spec(a) }
/// ASSUMED (std): the reflexive `impl<T> From<T> for T` is the identity.
#[verifier::external_body]
pub proof fn std_into_refl<T>(a: T)
    ensures <T as IntoSpec<T>>::obeys_into_spec(), IntoSpec::<T>::into_spec(a) == a
{}
/// ASSUMED (std), broadcast form of std_into_refl so that call sites passing a `T` for `impl Into<T>` need no hint
pub mod vx_ax { use vstd::prelude::*; use vstd::std_specs::convert::IntoSpec; pub broadcast axiom fn std_into_refl_b<T>(a: T)
    ensures <T as IntoSpec<T>>::obeys_into_spec(), #[trigger] IntoSpec::<T>::into_spec(a) == a; }
broadcast use vx_ax::std_into_refl_b;
pub open spec fn lt<T: PartialOrd>(a: T, b: T) -> bool { a.partial_cmp_spec(&b) == Some(cmp::Ordering::Less) }
pub open spec fn gt<T: PartialOrd>(a: T, b: T) -> bool { a.partial_cmp_spec(&b) == Some(cmp::Ordering::Greater) }

/// the three consequences of `total_order` the law proofs need, for concrete values
pub proof fn order_facts<T: PartialOrd>(a: T, b: T, c: T)
    requires total_order::<T>()
    ensures
        lt(a, b) || a == b || gt(a, b),
        !(lt(a, b) && gt(a, b)), !(lt(a, b) && a == b), !(gt(a, b) && a == b),
        lt(a, b) <==> gt(b, a),
        lt(a, b) && lt(b, c) ==> lt(a, c),
        gt(a, b) && gt(b, c) ==> gt(a, c),
{
    let _ = (a.partial_cmp_spec(&b), b.partial_cmp_spec(&a), b.partial_cmp_spec(&c), c.partial_cmp_spec(&b), a.partial_cmp_spec(&c), c.partial_cmp_spec(&a));
    match a.partial_cmp_spec(&b) {
        Some(cmp::Ordering::Less) => {}
        Some(cmp::Ordering::Equal) => {}
        Some(cmp::Ordering::Greater) => {}
        None => {}
    }
}

//@extract crates/radicle-crdt/src/lib.rs
//@  trait Semilattice
//@    add
//@      /// ghost: abstract value of a semilattice element
//@      type V;
//@      spec fn v(&self) -> Self::V;
//@      /// ghost: the join, written from the property statement per impl
//@      spec fn join_v(a: Self::V, b: Self::V) -> Self::V;
//@      /// ghost: hypotheses on type parameters under which the laws are claimed
//@      spec fn lawful() -> bool;
//@      proof fn law_idem(a: Self::V) requires Self::lawful() ensures Self::join_v(a, a) == a;
//@      proof fn law_comm(a: Self::V, b: Self::V) requires Self::lawful() ensures Self::join_v(a, b) == Self::join_v(b, a);
//@      proof fn law_assoc(a: Self::V, b: Self::V, c: Self::V) requires Self::lawful()
//@          ensures Self::join_v(Self::join_v(a, b), c) == Self::join_v(a, Self::join_v(b, c));
//@    fn merge
//@      touch self.v()
//@      ensures
//@        Self::lawful() ==> final(self).v() == Self::join_v(old(self).v(), other.v())
//@  impl <T: Semilattice> Semilattice for Option<T>
//@    add
//@      type V = Option<T::V>;
//@      open spec fn v(&self) -> Self::V { match self { Some(x) => Some(x.v()), None => None } }
//@      open spec fn join_v(a: Self::V, b: Self::V) -> Self::V {
//@          match (a, b) { (None, x) => x, (x, None) => x, (Some(x), Some(y)) => Some(T::join_v(x, y)) }
//@      }
//@      open spec fn lawful() -> bool { T::lawful() }
//@      proof fn law_idem(a: Self::V) { if let Some(x) = a { T::law_idem(x); } }
//@      proof fn law_comm(a: Self::V, b: Self::V) { if let (Some(x), Some(y)) = (a, b) { T::law_comm(x, y); } }
//@      proof fn law_assoc(a: Self::V, b: Self::V, c: Self::V) { if let (Some(x), Some(y), Some(z)) = (a, b, c) { T::law_assoc(x, y, z); } }
//@    fn merge
//@      touch self.v()
//@  impl Semilattice for ()
//@    add
//@      type V = ();
//@      open spec fn v(&self) -> Self::V { () }
//@      open spec fn join_v(a: Self::V, b: Self::V) -> Self::V { () }
//@      open spec fn lawful() -> bool { true }
//@      proof fn law_idem(a: Self::V) {}
//@      proof fn law_comm(a: Self::V, b: Self::V) {}
//@      proof fn law_assoc(a: Self::V, b: Self::V, c: Self::V) {}
//@    fn merge
//@      touch self.v()
//@  impl Semilattice for bool
//@    add
//@      type V = bool;
//@      open spec fn v(&self) -> Self::V { *self }
//@      open spec fn join_v(a: Self::V, b: Self::V) -> Self::V { a || b }
//@      open spec fn lawful() -> bool { true }
//@      proof fn law_idem(a: Self::V) {}
//@      proof fn law_comm(a: Self::V, b: Self::V) {}
//@      proof fn law_assoc(a: Self::V, b: Self::V, c: Self::V) {}
//@    fn merge
//@      touch self.v()
//@end

//@extract crates/radicle-crdt/src/ord.rs
//@  item struct Max
//@  item struct Min
//@    derive Clone, Copy, Debug, PartialEq, Eq
//@  impl <T> From<T> for Max<T>
//@    fn from
//@      ret r
//@      ensures
//@        r.val() == t
//@  impl <T> Max<T>
//@    add
//@      pub closed spec fn val(self) -> T { self.0 }
//@    fn get
//@      ret r
//@      ensures
//@        *r == self.val()
//@    fn into_inner
//@      ret r
//@      ensures
//@        r == self.val()
//@  impl <T: PartialOrd> Semilattice for Max<T>
//@    add
//@      type V = T;
//@      closed spec fn v(&self) -> Self::V { self.val() }
//@      open spec fn join_v(a: Self::V, b: Self::V) -> Self::V { if gt(b, a) { b } else { a } }
//@      open spec fn lawful() -> bool { total_order::<T>() }
//@      proof fn law_idem(a: Self::V) { order_facts(a, a, a); }
//@      proof fn law_comm(a: Self::V, b: Self::V) { order_facts(a, b, a); order_facts(b, a, b); }
//@      proof fn law_assoc(a: Self::V, b: Self::V, c: Self::V) {
//@          order_facts(a, b, c); order_facts(c, b, a); order_facts(a, c, b); order_facts(b, a, c); order_facts(b, c, a); order_facts(c, a, b);
//@      }
//@    fn merge
//@      touch self.v()
//@  impl <T: PartialOrd> Semilattice for Min<T>
//@    add
//@      type V = T;
//@      closed spec fn v(&self) -> Self::V { self.0 }
//@      open spec fn join_v(a: Self::V, b: Self::V) -> Self::V { if lt(b, a) { b } else { a } }
//@      open spec fn lawful() -> bool { total_order::<T>() }
//@      proof fn law_idem(a: Self::V) { order_facts(a, a, a); }
//@      proof fn law_comm(a: Self::V, b: Self::V) { order_facts(a, b, a); order_facts(b, a, b); }
//@      proof fn law_assoc(a: Self::V, b: Self::V, c: Self::V) {
//@          order_facts(a, b, c); order_facts(c, b, a); order_facts(a, c, b); order_facts(b, a, c); order_facts(b, c, a); order_facts(c, a, b);
//@      }
//@    fn merge
//@      touch self.v()
//@end

/// ASSUMED (rustc `#[derive(PartialEq, PartialOrd)]` on `struct Max<T>(T)`): compares field 0.
impl<T: PartialEq> vstd::std_specs::cmp::PartialEqSpecImpl for Max<T> {
    open spec fn obeys_eq_spec() -> bool { T::obeys_eq_spec() }
    closed spec fn eq_spec(&self, o: &Self) -> bool { self.0.eq_spec(&o.0) }
}
impl<T: PartialOrd> vstd::std_specs::cmp::PartialOrdSpecImpl for Max<T> {
    open spec fn obeys_partial_cmp_spec() -> bool { T::obeys_partial_cmp_spec() }
    closed spec fn partial_cmp_spec(&self, o: &Self) -> Option<cmp::Ordering> { self.0.partial_cmp_spec(&o.0) }
}

impl<T> FromSpecImpl<T> for Max<T> {
    open spec fn obeys_from_spec() -> bool { true }
    closed spec fn from_spec(t: T) -> Self { Max(t) }
}

//@extract crates/radicle-crdt/src/redactable.rs
//@  item enum Redactable
//@  impl <T: PartialEq> Semilattice for Redactable<T>
//@    add
//@      type V = Redactable<T>;
//@      open spec fn v(&self) -> Self::V { *self }
//@      /// statement: redaction is absorbing; two different present values join to redacted
//@      open spec fn join_v(a: Self::V, b: Self::V) -> Self::V {
//@          match (a, b) {
//@              (Redactable::Redacted, _) => Redactable::Redacted,
//@              (_, Redactable::Redacted) => Redactable::Redacted,
//@              (Redactable::Present(x), Redactable::Present(y)) => if x == y { Redactable::Present(x) } else { Redactable::Redacted },
//@          }
//@      }
//@      open spec fn lawful() -> bool { T::obeys_eq_spec() && forall|a: T, b: T| #[trigger] a.eq_spec(&b) <==> a == b }
//@      proof fn law_idem(a: Self::V) {}
//@      proof fn law_comm(a: Self::V, b: Self::V) {}
//@      proof fn law_assoc(a: Self::V, b: Self::V, c: Self::V) {}
//@    fn merge
//@      touch self.v()
//@end

//@extract crates/radicle-crdt/src/lwwreg.rs
//@  item struct LWWReg
//@    derive Debug, Clone, PartialEq, Eq
//@  impl <T: Semilattice, C: PartialOrd> LWWReg<T, C>
//@    add
//@      pub closed spec fn clk(self) -> C { self.clock.val() }
//@      pub closed spec fn valv(self) -> T::V { self.value.v() }
//@    fn new
//@      ret r
//@      ensures
//@        r.clk() == clock
//@        r.valv() == value.v()
//@    fn set
//@      ensures
//@        LWWReg::<T, C>::lawful() && into_ok::<_, T>(value) ==> final(self).v() == LWWReg::<T, C>::join_v(old(self).v(), (clock, into_v::<_, T>(value).v()))
//@    fn get
//@      ret r
//@      ensures
//@        r.v() == self.valv()
//@  impl <T, C> Semilattice for LWWReg<T, C> where T: Semilattice, C: PartialOrd,
//@    add
//@      type V = (C, T::V);
//@      closed spec fn v(&self) -> Self::V { (self.clk(), self.valv()) }
//@      /// statement: the value written with the greatest clock wins; equal clocks join the values
//@      open spec fn join_v(a: Self::V, b: Self::V) -> Self::V {
//@          if a.0 == b.0 { (a.0, T::join_v(a.1, b.1)) } else if gt(b.0, a.0) { b } else { a }
//@      }
//@      open spec fn lawful() -> bool { total_order::<C>() && T::lawful() }
//@      proof fn law_idem(a: Self::V) { T::law_idem(a.1); }
//@      proof fn law_comm(a: Self::V, b: Self::V) { T::law_comm(a.1, b.1); order_facts(a.0, b.0, a.0); order_facts(b.0, a.0, b.0); }
//@      proof fn law_assoc(a: Self::V, b: Self::V, c: Self::V) {
//@          T::law_assoc(a.1, b.1, c.1);
//@          order_facts(a.0, b.0, c.0); order_facts(c.0, b.0, a.0); order_facts(a.0, c.0, b.0); order_facts(b.0, a.0, c.0); order_facts(b.0, c.0, a.0); order_facts(c.0, a.0, b.0);
//@      }
//@    fn merge
//@      touch self.v()
//@      head
//@        proof { std_into_refl::<T>(other.value); }
//@end

//@extract crates/radicle-crdt/src/gmap.rs
//@  item struct GMap
//@    derive Debug, Clone, PartialEq, Eq
//@  impl <K: Ord, V: Semilattice> GMap<K, V>
//@    add
//@      pub closed spec fn mv(self) -> Map<K, V::V> { self.raw()@.map_values(|x: V| x.v()) }
//@    fn get_mut
//@      attr #[verifier::external_body] // BTreeMap::get_mut is outside vstd: contract assumed (under contract so that callers using it can be decided)
//@      ret r
//@      ensures
//@        !old(self).raw()@.contains_key(*key) ==> r is None && *final(self) == *old(self)
//@        old(self).raw()@.contains_key(*key) ==> r is Some && *r->Some_0 == old(self).raw()@[*key] && final(self).raw()@ == old(self).raw()@.insert(*key, *final(r->Some_0))
//@        old(self).raw()@.contains_key(*key) ==> old(self).mv().dom().contains(*key) && old(self).mv()[*key] == (*r->Some_0).v() && final(self).mv() == old(self).mv().insert(*key, (*final(r->Some_0)).v())
//@        !old(self).raw()@.contains_key(*key) ==> !old(self).mv().dom().contains(*key)
//@    fn insert
//@      attr #[verifier::external_body] // BTreeMap::entry API is outside vstd; contract assumed
//@      ensures
//@        V::lawful() ==> final(self).mv() == GMap::<K, V>::join_v(old(self).mv(), Map::<K, V::V>::empty().insert(key, value.v()))
//@  impl <K, V> Default for GMap<K, V>
//@    fn default
//@  impl <K, V> GMap<K, V>
//@    attr #[verifier::external] // only needed so that GSet's (external) into_iter type-checks
//@    fn into_keys
//@  impl <K, V> Deref for GMap<K, V>
//@    fn deref
//@      ret r
//@      ensures
//@        *r == self.raw()
//@  impl <K, V> IntoIterator for GMap<K, V>
//@    attr #[verifier::external] // only needed so that the (external_body) `merge` below type-checks
//@    fn into_iter
//@  impl <K: Ord, V: Semilattice> Semilattice for GMap<K, V>
//@    add
//@      type V = Map<K, V::V>;
//@      closed spec fn v(&self) -> Self::V { self.mv() }
//@      /// statement: grow-only map = key-wise join, keys present on one side are kept
//@      open spec fn join_v(a: Self::V, b: Self::V) -> Self::V {
//@          Map::new(
//@              a.dom().union(b.dom()),
//@              |k: K| if a.dom().contains(k) && b.dom().contains(k) { V::join_v(a[k], b[k]) } else if a.dom().contains(k) { a[k] } else { b[k] },
//@          )
//@      }
//@      open spec fn lawful() -> bool { V::lawful() }
//@      proof fn law_idem(a: Self::V) {
//@          assert forall|k: K| a.dom().contains(k) implies #[trigger] Self::join_v(a, a)[k] == a[k] by { V::law_idem(a[k]); }
//@          assert(Self::join_v(a, a) =~= a);
//@      }
//@      proof fn law_comm(a: Self::V, b: Self::V) {
//@          assert forall|k: K| a.dom().contains(k) && b.dom().contains(k) implies #[trigger] Self::join_v(a, b)[k] == Self::join_v(b, a)[k] by { V::law_comm(a[k], b[k]); }
//@          assert(Self::join_v(a, b) =~= Self::join_v(b, a));
//@      }
//@      proof fn law_assoc(a: Self::V, b: Self::V, c: Self::V) {
//@          let l = Self::join_v(Self::join_v(a, b), c);
//@          let r = Self::join_v(a, Self::join_v(b, c));
//@          assert forall|k: K| l.dom().contains(k) implies #[trigger] l[k] == r[k] by {
//@              if a.dom().contains(k) && b.dom().contains(k) && c.dom().contains(k) { V::law_assoc(a[k], b[k], c[k]); }
//@          }
//@          assert(l =~= r);
//@      }
//@    fn merge
//@      touch self.v()
//@      attr #[verifier::exec_allows_no_decreases_clause]
//@      desugar_for
//@      # BTreeMap::into_iter is outside vstd: the by-value iteration is a stand-in that yields every entry once (ent_order)
//@      body_sub other\.into_iter\(\) => vx_entries(other)
//@      nloops 1
//@      loop 1
//@        invariant
//@          __vx_it1.s@ == ent_order(old_other) && 0 <= __vx_it1.k@ <= __vx_it1.s@.len()
//@          V::lawful() ==> self.mv() == Self::join_v(old(self).mv(), pre_map::<K, V>(__vx_it1.s@, __vx_it1.k@))
//@        ensures
//@          __vx_it1.k@ == __vx_it1.s@.len()
//@      head
//@        let ghost old_other = other.raw()@;
//@        proof { ent_order_props::<K, V>(old_other); lemma_join_empty::<K, V>(old(self).mv()); lemma_pre_map_all::<K, V>(old_other); }
//@      hint 1 self\.insert\(k, v\);
//@        let ghost vx_before = self.mv();
//@      hint_after 1 self\.insert\(k, v\);
//@        ent_order_props::<K, V>(old_other);
//@        lemma_pre_map_dom::<K, V>(__vx_it1.s@, __vx_it1.k@ - 1);
//@        assert(__vx_it1.s@[__vx_it1.k@ - 1].0 == k);
//@        assert(forall|i: int| 0 <= i < __vx_it1.k@ - 1 ==> (#[trigger] __vx_it1.s@[i]).0 != __vx_it1.s@[__vx_it1.k@ - 1].0);
//@        assert(!pre_map::<K, V>(__vx_it1.s@, __vx_it1.k@ - 1).dom().contains(k));
//@        lemma_join_step::<K, V>(old(self).mv(), pre_map::<K, V>(__vx_it1.s@, __vx_it1.k@ - 1), k, v.v());
//@end

impl<K, V> GMap<K, V> { pub closed spec fn raw(self) -> BTreeMap<K, V> { self.inner } }
/// the order in which a BTreeMap with these contents hands out its entries by value: ASSUMED to be a function of the contents
pub uninterp spec fn ent_order<K, V>(m: Map<K, V>) -> Seq<(K, V)>;
/// ASSUMED (BTreeMap::into_iter): every entry exactly once
#[verifier::external_body]
pub proof fn ent_order_props<K, V>(m: Map<K, V>)
    ensures
        forall|i: int| 0 <= i < ent_order(m).len() ==> m.contains_key(#[trigger] ent_order(m)[i].0) && m[ent_order(m)[i].0] == ent_order(m)[i].1,
        forall|k: K| m.contains_key(k) ==> exists|i: int| 0 <= i < ent_order(m).len() && #[trigger] ent_order(m)[i].0 == k,
        forall|i: int, j: int| 0 <= i < j < ent_order(m).len() ==> ent_order(m)[i].0 != ent_order(m)[j].0,
{}
pub struct Entries<K, V> { pub s: Ghost<Seq<(K, V)>>, pub k: Ghost<int>, pub rest: Vec<(K, V)> }
impl<K, V> Entries<K, V> {
    #[verifier::external_body]
    pub fn next(&mut self) -> (r: Option<(K, V)>)
        ensures final(self).s@ == old(self).s@,
            old(self).k@ < old(self).s@.len() ==> r is Some && final(self).k@ == old(self).k@ + 1 && r->Some_0 == old(self).s@[old(self).k@],
            old(self).k@ >= old(self).s@.len() ==> r is None && final(self).k@ == old(self).k@,
    { unimplemented!() }
}
#[verifier::external_body]
pub fn vx_entries<K, V>(g: GMap<K, V>) -> (r: Entries<K, V>) ensures r.s@ == ent_order(g.raw()@), r.k@ == 0 { unimplemented!() }
/// the abstract map of the first `n` entries
pub open spec fn pre_map<K, V: Semilattice>(s: Seq<(K, V)>, n: int) -> Map<K, V::V> decreases n {
    if n <= 0 { Map::empty() } else { pre_map::<K, V>(s, n - 1).insert(s[n - 1].0, s[n - 1].1.v()) }
}
pub proof fn lemma_join_empty<K: Ord, V: Semilattice>(a: Map<K, V::V>)
    ensures GMap::<K, V>::join_v(a, Map::<K, V::V>::empty()) =~= a
{}
pub proof fn lemma_join_step<K: Ord, V: Semilattice>(a: Map<K, V::V>, m: Map<K, V::V>, k: K, x: V::V)
    requires !m.dom().contains(k)
    ensures GMap::<K, V>::join_v(GMap::<K, V>::join_v(a, m), Map::<K, V::V>::empty().insert(k, x)) =~= GMap::<K, V>::join_v(a, m.insert(k, x))
{}
pub proof fn lemma_pre_map_dom<K, V: Semilattice>(s: Seq<(K, V)>, n: int)
    requires 0 <= n <= s.len()
    ensures forall|k: K| #[trigger] pre_map::<K, V>(s, n).dom().contains(k) <==> exists|i: int| 0 <= i < n && #[trigger] s[i].0 == k
    decreases n
{
    if n > 0 {
        lemma_pre_map_dom::<K, V>(s, n - 1);
        assert forall|k: K| #[trigger] pre_map::<K, V>(s, n).dom().contains(k) <==> exists|i: int| 0 <= i < n && #[trigger] s[i].0 == k by {
            assert(pre_map::<K, V>(s, n) == pre_map::<K, V>(s, n - 1).insert(s[n - 1].0, s[n - 1].1.v()));
            if pre_map::<K, V>(s, n).dom().contains(k) {
                if k == s[n - 1].0 { assert(s[n - 1].0 == k); } else {
                    assert(pre_map::<K, V>(s, n - 1).dom().contains(k));
                    let i = choose|i: int| 0 <= i < n - 1 && #[trigger] s[i].0 == k; assert(s[i].0 == k);
                }
            }
            if exists|i: int| 0 <= i < n && #[trigger] s[i].0 == k {
                let i = choose|i: int| 0 <= i < n && #[trigger] s[i].0 == k;
                if i < n - 1 { assert(s[i].0 == k); }
            }
        }
    }
}
pub proof fn lemma_pre_map_all<K, V: Semilattice>(m: Map<K, V>)
    ensures pre_map::<K, V>(ent_order(m), ent_order(m).len() as int) =~= m.map_values(|x: V| x.v())
{
    ent_order_props::<K, V>(m);
    let s = ent_order(m);
    lemma_pre_map_vals::<K, V>(s, s.len() as int);
    lemma_pre_map_dom::<K, V>(s, s.len() as int);
    assert forall|k: K| pre_map::<K, V>(s, s.len() as int).dom().contains(k) <==> m.contains_key(k) by {
        if m.contains_key(k) { let i = choose|i: int| 0 <= i < s.len() && #[trigger] s[i].0 == k; assert(s[i].0 == k); }
    }
}
pub proof fn lemma_pre_map_vals<K, V: Semilattice>(s: Seq<(K, V)>, n: int)
    requires 0 <= n <= s.len(), forall|i: int, j: int| 0 <= i < j < s.len() ==> s[i].0 != s[j].0
    ensures forall|i: int| 0 <= i < n ==> pre_map::<K, V>(s, n)[#[trigger] s[i].0] == s[i].1.v()
    decreases n
{
    if n > 0 { lemma_pre_map_vals::<K, V>(s, n - 1); }
}

//@extract crates/radicle-crdt/src/gset.rs
//@  item struct GSet
//@    derive Debug, Clone, PartialEq, Eq
//@  impl <K: Ord> GSet<K>
//@    add
//@      pub closed spec fn sv(self) -> Set<K> { self.inner.mv().dom() }
//@    fn insert
//@      ensures
//@        final(self).sv() == old(self).sv().insert(key)
//@  impl <K> IntoIterator for GSet<K>
//@    attr #[verifier::external] // only needed so that the (external_body) `merge` below type-checks
//@    fn into_iter
//@  impl <K: Ord> Semilattice for GSet<K>
//@    add
//@      type V = Set<K>;
//@      closed spec fn v(&self) -> Self::V { self.sv() }
//@      /// statement: grow-only set = union
//@      open spec fn join_v(a: Self::V, b: Self::V) -> Self::V { a.union(b) }
//@      open spec fn lawful() -> bool { true }
//@      proof fn law_idem(a: Self::V) { assert(a.union(a) =~= a); }
//@      proof fn law_comm(a: Self::V, b: Self::V) { assert(a.union(b) =~= b.union(a)); }
//@      proof fn law_assoc(a: Self::V, b: Self::V, c: Self::V) { assert(a.union(b).union(c) =~= a.union(b.union(c))); }
//@    fn merge
//@      touch self.v()
//@      attr #[verifier::external_body] // BTreeMap::into_keys is outside vstd; contract checked by Kani (bounded) -- see kx/crdt
//@end

//@extract crates/radicle-crdt/src/lwwmap.rs
//@  item struct LWWMap
//@    derive Debug, Clone, PartialEq, Eq
//@  impl <K: Ord, V: Semilattice, C: PartialOrd + Ord> LWWMap<K, V, C>
//@    add
//@      pub closed spec fn lv(self) -> Map<K, (C, Option<V::V>)> { self.inner.mv() }
//@      pub open spec fn ok() -> bool { total_order::<C>() && V::lawful() }
//@      /// statement: what a reader sees for `key`
//@      pub open spec fn visible(m: Map<K, (C, Option<V::V>)>, key: K) -> Option<V::V> {
//@          if m.dom().contains(key) { m[key].1 } else { None }
//@      }
//@    fn get
//@      ret r
//@      ensures
//@        vstd::laws_cmp::obeys_cmp_spec::<K>() ==> (match r { Some(x) => Some(x.v()), None => None }) == Self::visible(self.lv(), *key)
//@    fn insert
//@      ensures
//@        Self::ok() ==> final(self).lv() =~= LWWMap::<K, V, C>::join_v(old(self).lv(), Map::<K, (C, Option<V::V>)>::empty().insert(key, (clock, Some(value.v()))))
//@    fn remove
//@      ensures
//@        Self::ok() ==> final(self).lv() =~= LWWMap::<K, V, C>::join_v(old(self).lv(), Map::<K, (C, Option<V::V>)>::empty().insert(key, (clock, None::<V::V>)))
//@    fn contains_key
//@      ret r
//@      ensures
//@        vstd::laws_cmp::obeys_cmp_spec::<K>() ==> r == Self::visible(self.lv(), *key).is_some()
//@  impl <K, V, C> Semilattice for LWWMap<K, V, C> where K: Ord, V: Semilattice, C: Ord,
//@    add
//@      type V = Map<K, (C, Option<V::V>)>;
//@      closed spec fn v(&self) -> Self::V { self.lv() }
//@      /// statement: per key a last-writer-wins register of an optional value
//@      open spec fn join_v(a: Self::V, b: Self::V) -> Self::V { GMap::<K, LWWReg<Option<V>, C>>::join_v(a, b) }
//@      open spec fn lawful() -> bool { total_order::<C>() && V::lawful() }
//@      proof fn law_idem(a: Self::V) { GMap::<K, LWWReg<Option<V>, C>>::law_idem(a); }
//@      proof fn law_comm(a: Self::V, b: Self::V) { GMap::<K, LWWReg<Option<V>, C>>::law_comm(a, b); }
//@      proof fn law_assoc(a: Self::V, b: Self::V, c: Self::V) { GMap::<K, LWWReg<Option<V>, C>>::law_assoc(a, b, c); }
//@    fn merge
//@      touch self.v()
//@end

/// stand-in for LWWMap::is_empty (`self.iter().next().is_none()` over a filter_map chain): result arbitrary.
/// (Giving it the contract "no live entry" -- any ensures mentioning `self.lv()` -- makes Verus 0.2026.09.13 fail two
/// unrelated, previously verified functions of this unit (Max::from / Max::merge); not understood, so no contract.)
impl<K: Ord, V: Semilattice, C: PartialOrd + Ord> LWWMap<K, V, C> {
    #[verifier::external_body]
    pub(crate) fn is_empty(&self) -> bool { unimplemented!() }
}

//@extract crates/radicle-crdt/src/lwwset.rs
//@  item struct LWWSet
//@    derive Debug, Clone, PartialEq, Eq
//@  impl <T: Ord, C: Ord> LWWSet<T, C>
//@    add
//@      pub closed spec fn sv(self) -> Map<T, (C, Option<()>)> { self.inner.lv() }
//@    fn insert
//@      ensures
//@        total_order::<C>() ==> final(self).sv() == LWWMap::<T, (), C>::join_v(old(self).sv(), Map::<T, (C, Option<()>)>::empty().insert(value, (clock, Some(()))))
//@    fn remove
//@      ensures
//@        total_order::<C>() ==> final(self).sv() == LWWMap::<T, (), C>::join_v(old(self).sv(), Map::<T, (C, Option<()>)>::empty().insert(value, (clock, None::<()>)))
//@    fn contains
//@      ret r
//@      ensures
//@        vstd::laws_cmp::obeys_cmp_spec::<T>() ==> r == LWWMap::<T, (), C>::visible(self.sv(), *value).is_some()
//@  impl <T, C> Semilattice for LWWSet<T, C> where T: Ord, C: Ord + Default,
//@    add
//@      type V = Map<T, (C, Option<()>)>;
//@      closed spec fn v(&self) -> Self::V { self.sv() }
//@      open spec fn join_v(a: Self::V, b: Self::V) -> Self::V { LWWMap::<T, (), C>::join_v(a, b) }
//@      open spec fn lawful() -> bool { total_order::<C>() }
//@      proof fn law_idem(a: Self::V) { LWWMap::<T, (), C>::law_idem(a); }
//@      proof fn law_comm(a: Self::V, b: Self::V) { LWWMap::<T, (), C>::law_comm(a, b); }
//@      proof fn law_assoc(a: Self::V, b: Self::V, c: Self::V) { LWWMap::<T, (), C>::law_assoc(a, b, c); }
//@    fn merge
//@      touch self.v()
//@end

// ---- lemmas: the sentences of the property that are not per-type ACI --------------------
/// "Last-writer-wins structures expose the value written with the greatest clock"
pub proof fn lemma_lww_greatest_clock<T: Semilattice, C: PartialOrd>(a: (C, T::V), b: (C, T::V))
    requires total_order::<C>(), gt(b.0, a.0)
    ensures LWWReg::<T, C>::join_v(a, b) == b, LWWReg::<T, C>::join_v(b, a) == b
{ order_facts(a.0, b.0, a.0); order_facts(b.0, a.0, b.0); }

/// "... and at equal clocks an insertion wins over a removal" (map and set)
pub proof fn lemma_lww_insert_wins<K: Ord, V: Semilattice, C: Ord>(m: Map<K, (C, Option<V::V>)>, k: K, c: C, x: V::V)
    requires total_order::<C>(), V::lawful(),
        // unless a strictly later write to `k` is already recorded (then that one is exposed: lemma_lww_greatest_clock)
        !m.dom().contains(k) || !gt(m[k].0, c),
    ensures ({
        let ins = Map::<K, (C, Option<V::V>)>::empty().insert(k, (c, Some(x)));
        let rem = Map::<K, (C, Option<V::V>)>::empty().insert(k, (c, None::<V::V>));
        let j = |a: Map<K, (C, Option<V::V>)>, b: Map<K, (C, Option<V::V>)>| LWWMap::<K, V, C>::join_v(a, b);
        &&& LWWMap::<K, V, C>::visible(j(j(m, ins), rem), k).is_some()
        &&& LWWMap::<K, V, C>::visible(j(j(m, rem), ins), k).is_some()
        &&& !m.dom().contains(k) ==> LWWMap::<K, V, C>::visible(j(j(m, rem), ins), k) == Some(x)
    })
{
    order_facts(c, c, c);
    if m.dom().contains(k) { order_facts(m[k].0, c, c); order_facts(c, m[k].0, c); }
}

/// every merge is the join, so ACI of `merge` follows from the `law_*` members: restated once, generically
pub proof fn lemma_aci<S: Semilattice>(a: S::V, b: S::V, c: S::V)
    requires S::lawful()
    ensures
        S::join_v(a, a) == a,
        S::join_v(a, b) == S::join_v(b, a),
        S::join_v(S::join_v(a, b), c) == S::join_v(a, S::join_v(b, c)),
{ S::law_idem(a); S::law_comm(a, b); S::law_assoc(a, b, c); }

//@canary
} // verus!
fn main() {}
