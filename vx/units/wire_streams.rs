// Unit `wire_streams` (C13): a peer cannot make `Streams::open` panic. The stream table keeps the invariant "no
// registered stream of OUR half of the id space (our link bit, git kind) lies ahead of our sequence number", every
// operation that takes an id from the peer preserves it, and under it `open` never hits its `expect`s.
// Real code: Streams::{new, open, register} (crates/radicle-node/src/wire/protocol.rs),
// StreamId::{link, git, nth} (crates/radicle-node/src/wire/frame.rs), VarInt::new (wire/varint.rs).
use vstd::prelude::*;
use std::collections::HashMap;
use std::collections::hash_map::Entry;
use std::ops;
//@include _prelude.rs

verus! {
//@include _panic.rs

// ---- environment (declarations only) ------------------------------------------------------------------
#[derive(Debug, Clone, Copy, PartialEq, Eq)] pub enum Link { Outbound, Inbound }
/// ASSUMED (derive(PartialEq) on a fieldless enum): structural equality
impl vstd::std_specs::cmp::PartialEqSpecImpl for Link { open spec fn obeys_eq_spec() -> bool { true } open spec fn eq_spec(&self, o: &Self) -> bool { *self == *o } }
impl Link { pub fn is_outbound(&self) -> (r: bool) ensures r == (*self == Link::Outbound) { matches!(self, Link::Outbound) } }
#[derive(Debug)] pub struct BoundsExceeded;
pub mod varint { pub use crate::BoundsExceeded; }
pub struct ChannelsConfig { pub opaque: u64 }
pub mod worker { pub struct Channels { pub opaque: u64 } }
pub struct Stream { pub opaque: u64 }
pub type RandomMap<K, V> = HashMap<K, V>;
/// ASSUMED (derive(PartialEq, Eq, Hash) on integer newtypes): structural equality, lawful hashing
#[verifier::external_body]
pub proof fn ids_lawful()
    ensures vstd::std_specs::hash::obeys_key_model::<StreamId>(),
        vstd::std_specs::hash::builds_valid_hashers::<std::collections::hash_map::RandomState>(),
{}
pub open spec fn bit(l: Link) -> u64 { if l == Link::Outbound { 0 } else { 1 } }
/// the first git stream id of a link direction: kind `0b10` in bits 1-2, initiator in bit 0
pub open spec fn git0(l: Link) -> u64 { (4 + bit(l)) as u64 }
pub proof fn lemma_ids(b: u64, n: u64, x: u64)
    requires b == 0 || b == 1, n < 0x0400_0000_0000_0000
    ensures
        (4 + b) + (n << 3) <= 0x3fff_ffff_ffff_ffff,
        (((4 + b) + (n << 3)) as u64) & 7 == 4 + b,
        (((4 + b) + (n << 3)) as u64) >> 3 == n,
        (x & 1 == 0) != (b == 0) ==> x & 7 != 4 + b,
        (4u64 | b) == 4 + b,
{
    let s = n << 3;
    assert(s <= 0x1fff_ffff_ffff_fff8) by (bit_vector) requires s == n << 3, n < 0x0400_0000_0000_0000;
    let t = add(add(4u64, b), s);
    assert(t == 4 + b + s);
    assert(t & 7 == add(4u64, b) && t >> 3 == n) by (bit_vector) requires t == add(add(4u64, b), s), s == n << 3, b == 0 || b == 1, n < 0x0400_0000_0000_0000;
    assert((x & 1 == 0) != (b == 0) ==> x & 7 != add(4u64, b)) by (bit_vector) requires b == 0 || b == 1;
    assert((4u64 | b) == add(4u64, b)) by (bit_vector) requires b == 0 || b == 1;
}

//@extract crates/radicle-node/src/wire/varint.rs
//@  item struct VarInt
//@    derive Copy, Clone, Debug, Eq, PartialEq, Hash
//@  impl VarInt
//@    drop decode, encode
//@    # Verus cannot evaluate `1 << 62` without bit-vector mode (the literal is proved equal in unit wire_frame: lemma_varint_max)
//@    const_sub \(1 << 62\) - 1 => 4611686018427387903u64
//@    fn new
//@      ret r
//@      ensures
//@        x <= 0x3fff_ffff_ffff_ffff ==> r is Ok && r->Ok_0.0 == x
//@        x > 0x3fff_ffff_ffff_ffff ==> r is Err
//@  impl ops::Deref for VarInt
//@    fn deref
//@      ret r
//@      ensures
//@        *r == self.0
//@  impl From<u8> for VarInt
//@    fn from
//@      ret r
//@      ensures
//@        r.0 == x as u64
//@end
impl vstd::std_specs::convert::FromSpecImpl<u8> for VarInt { open spec fn obeys_from_spec() -> bool { true } open spec fn from_spec(x: u8) -> VarInt { VarInt(x as u64) } }

//@extract crates/radicle-node/src/wire/frame.rs
//@  item struct StreamId
//@    derive Copy, Clone, Debug, PartialEq, Eq, Hash
//@  item enum StreamKind
//@    derive Copy, Clone, Debug, PartialEq, Eq
//@  impl StreamId
//@    drop kind, control, gossip
//@    fn link
//@      ret r
//@      ensures
//@        r == (if self.0.0 & 1 == 0 { Link::Outbound } else { Link::Inbound })
//@      head
//@        proof { let n = self.0.0; assert((0b1 & n) == (n & 1)) by (bit_vector); }
//@    fn git
//@      ret r
//@      # ASSUMED: `StreamKind::Git as u8` is the discriminant 0b10 (repr(u8))
//@      body_sub \(StreamKind::Git as u8\) => 2u8
//@      ensures
//@        r.0.0 == git0(link)
//@      head
//@        proof { lemma_ids(bit(link), 0, 0); assert((2u8 << 1) | 0u8 == 4u8) by (bit_vector); assert((2u8 << 1) | 1u8 == 5u8) by (bit_vector); }
//@    fn nth
//@      ret r
//@      body_sub \.map\(Self\) => .map(|v: VarInt| -> (o: StreamId) ensures o.0 == v { StreamId(v) })
//@      requires
//@        # (the addition must not overflow: `n` is our own sequence number, never a value from the peer)
//@        self.0.0 <= 7 && n < 0x0400_0000_0000_0000
//@      ensures
//@        r is Ok && r->Ok_0.0.0 == self.0.0 + (n << 3)
//@      head
//@        proof { let s = n << 3; assert(s <= 0x1fff_ffff_ffff_fff8) by (bit_vector) requires s == n << 3, n < 0x0400_0000_0000_0000; }
//@end

//@extract crates/radicle-node/src/wire/protocol.rs
//@  item struct Streams
//@  impl Streams
//@    drop get, get_mut, unregister, shutdown, insert
//@    add
//@      /// C13: no registered stream of our own half of the id space (our initiator bit, git kind) is ahead of our
//@      /// sequence number -- so the id `open` computes next is always free
//@      pub open spec fn wf(self) -> bool {
//@          forall|id: StreamId| #[trigger] self.streams@.contains_key(id) && id.0.0 & 7 == git0(self.link) ==> (id.0.0 >> 3) <= self.seq
//@      }
//@      /// stand-in for Streams::insert (HashMap entry API; worker::Channels::pair): ASSUMED to insert the stream iff the id is free
//@      #[verifier::external_body]
//@      fn insert(&mut self, stream: StreamId, config: ChannelsConfig) -> (r: Option<worker::Channels>)
//@          ensures
//@              final(self).link == old(self).link && final(self).seq == old(self).seq,
//@              (r is Some) == !old(self).streams@.contains_key(stream),
//@              r is Some ==> final(self).streams@.dom() == old(self).streams@.dom().insert(stream),
//@              r is None ==> final(self).streams@ == old(self).streams@,
//@      { unimplemented!() }
//@    fn new
//@      ret r
//@      ensures
//@        r.wf() && r.link == link
//@      head
//@        proof { ids_lawful(); }
//@    fn open
//@      ret r
//@      requires
//@        old(self).wf()
//@        # fewer than 2^58 streams were opened by us on this connection (beyond that open panics by design: "too many streams")
//@        old(self).seq < 0x03ff_ffff_ffff_fffe
//@      ensures
//@        # C13: no `expect` of open can fail (implicit), and the invariant is kept
//@        final(self).wf() && final(self).link == old(self).link //[C13]
//@      head
//@        proof { ids_lawful(); lemma_ids(bit(self.link), (self.seq + 1) as u64, 0); }
//@    fn register
//@      ret r
//@      requires
//@        old(self).wf()
//@      ensures
//@        # C13: whatever id the remote peer names, the invariant is kept (ids of our own half are refused)
//@        final(self).wf() && final(self).link == old(self).link && final(self).seq == old(self).seq //[C13]
//@        r is Some ==> (stream.0.0 & 1 == 0) != (old(self).link == Link::Outbound)
//@      head
//@        proof { ids_lawful(); lemma_ids(bit(self.link), 0, stream.0.0); }
//@end

//@canary
} // verus!
fn main() {}
