// Unit `service_fetch` (C16, C13): a worker's fetch result is applied only to the fetch it belongs to.
// Real code: Service::fetched, Service::queue_fetch (crates/radicle-node/src/service.rs).
use vstd::prelude::*;
use std::collections::{HashMap, HashSet};
//@include _prelude.rs

verus! {
//@include _panic.rs

// ---- environment (declarations only; `&mut self` stand-ins have arbitrary effect unless stated) ------
#[derive(Clone, Copy, PartialEq, Eq, Hash, Debug)] pub struct NodeId(pub [u8; 32]);
#[derive(Clone, Copy, PartialEq, Eq, Hash, Debug)] pub struct RepoId(pub [u8; 20]);
/// ASSUMED (derive(PartialEq, Hash) on byte-array newtypes): structural equality, lawful hashing.
#[verifier::external_body]
pub proof fn ids_lawful()
    ensures vstd::std_specs::hash::obeys_key_model::<RepoId>(),
        vstd::std_specs::hash::builds_valid_hashers::<std::collections::hash_map::RandomState>(),
        <NodeId as vstd::std_specs::cmp::PartialEqSpec>::obeys_eq_spec(),
        forall|a: NodeId, b: NodeId| #[trigger] vstd::std_specs::cmp::PartialEqSpec::eq_spec(&a, &b) <==> a == b,
{}
#[derive(Clone, Copy, Debug)] pub struct LocalTime { pub ms: u64 }
#[derive(Clone, Copy, Debug)] pub struct Timestamp(pub u64);
impl From<LocalTime> for Timestamp { #[verifier::external_body] fn from(t: LocalTime) -> Self { unimplemented!() } }
#[derive(Debug)] pub struct RefsAt;
#[derive(Debug, Clone)] pub struct RefUpdate;
impl RefUpdate { #[verifier::external_body] pub fn is_skipped(&self) -> bool { unimplemented!() } }
pub struct Doc;
pub struct DocAt;
impl DocAt { #[verifier::external_body] pub fn is_public(&self) -> bool { unimplemented!() } }
impl From<DocAt> for Doc { #[verifier::external_body] fn from(d: DocAt) -> Self { unimplemented!() } }
pub mod fetch {
    pub struct FetchResult { pub updated: Vec<crate::RefUpdate>, pub namespaces: std::collections::HashSet<crate::NodeId>, pub clone: bool, pub doc: crate::DocAt }
}
pub struct FetchError;
impl FetchError {
    #[verifier::external_body] pub fn is_timeout(&self) -> bool { unimplemented!() }
    #[verifier::external_body] pub fn to_string(&self) -> String { unimplemented!() }
}
/// node::FetchResult (what subscribers receive)
pub enum FetchResult { Success { updated: Vec<RefUpdate>, namespaces: HashSet<NodeId>, clone: bool }, Failed { reason: String } }
pub mod chan {
    pub struct SendError;
    #[derive(Debug)] pub struct Sender<T>(pub T);
    impl<T> Sender<T> { #[verifier::external_body] pub fn send(&self, t: T) -> Result<(), SendError> { unimplemented!() } }
}
#[verifier::external_body] pub fn vx_clone_updates(v: &Vec<RefUpdate>) -> Vec<RefUpdate> { unimplemented!() }
#[verifier::external_body] pub fn vx_clone_namespaces(v: &HashSet<NodeId>) -> HashSet<NodeId> { unimplemented!() }
/// stand-in for `updated.iter().all(|u| u.is_skipped())` (iterator adapter + closure): result arbitrary
#[verifier::external_body] pub fn vx_all_skipped(v: &Vec<RefUpdate>) -> bool { unimplemented!() }
pub enum Event { RefsFetched { remote: NodeId, rid: RepoId, updated: Vec<RefUpdate> } }
pub struct Emitter<T>(pub T);
impl<T> Emitter<T> { #[verifier::external_body] pub fn emit(&self, e: T) { unimplemented!() } }
pub enum DisconnectReason { Fetch(FetchError) }
pub struct Outbox;
impl Outbox { #[verifier::external_body] pub fn disconnect(&mut self, remote: NodeId, reason: DisconnectReason) { unimplemented!() } }
pub struct Session { pub id: NodeId }
impl Session {
    /// per-session bookkeeping, verified in unit `session`
    #[verifier::external_body] pub fn fetched(&mut self, rid: RepoId) { unimplemented!() }
    #[verifier::external_body] pub fn queue_fetch(&mut self, f: QueuedFetch) -> (r: Result<(), QueueError>) requires f.from == old(self).id { unimplemented!() }
}
pub struct QueuedFetch { pub rid: RepoId, pub from: NodeId }
pub struct QueueError;
impl QueueError { #[verifier::external_body] pub fn inner(&self) -> &QueuedFetch { unimplemented!() } }
pub struct Sessions;
impl Sessions {
    /// ASSUMED: sessions are keyed by node id
    #[verifier::external_body]
    pub fn get_mut(&mut self, id: &NodeId) -> (r: Option<&mut Session>) ensures r is Some ==> r->Some_0.id == *id { unimplemented!() }
}
pub struct Config; pub struct Device<G>(pub G); pub struct Stores<D>(pub D);
pub trait Store {} pub trait ReadStorage {}
pub mod crypto { pub struct Signature; pub mod signature { pub trait Signer<T> {} } }
#[derive(Debug)] pub struct Error;

//@extract crates/radicle-node/src/service.rs
//@  item struct FetchState
//@    derive
//@  item struct Service
//@    fields config, signer, storage, db, sessions, clock, outbox, fetching, emitter
//@  impl <D, S, G> Service<D, S, G> where D: Store, S: ReadStorage + 'static, G: crypto::signature::Signer<crypto::Signature>,
//@    add
//@      // -- the rest of the service, out of scope of this unit: arbitrary effects
//@      #[verifier::external_body] fn seed_discovered(&mut self, rid: RepoId, nid: NodeId, time: Timestamp) { unimplemented!() }
//@      #[verifier::external_body] fn add_inventory(&mut self, rid: RepoId) -> Result<bool, Error> { unimplemented!() }
//@      #[verifier::external_body] fn announce_refs(&mut self, rid: RepoId, doc: Doc, namespaces: HashSet<NodeId>) -> Result<(), Error> { unimplemented!() }
//@      #[verifier::external_body] pub fn dequeue_fetches(&mut self) { unimplemented!() }
//@    fn queue_fetch
//@    fn fetched
//@      attr #[verifier::exec_allows_no_decreases_clause]
//@      body_sub for sub in &fetching\.subscribers => for sub in fetching.subscribers.iter()
//@      body_sub for update in &updated => for update in updated.iter()
//@      body_sub updated: success\.updated\.clone\(\) => updated: vx_clone_updates(&success.updated)
//@      body_sub namespaces: success\.namespaces\.clone\(\) => namespaces: vx_clone_namespaces(&success.namespaces)
//@      body_sub updated: updated\.clone\(\) => updated: vx_clone_updates(&updated)
//@      body_sub updated\.iter\(\)\.all\(\|u\| u\.is_skipped\(\)\) => vx_all_skipped(&updated)
//@      ensures
//@        # C16: a result from `remote` never disturbs a fetch of `rid` that belongs to another peer
//@        old(self).fetching@.contains_key(rid) && old(self).fetching@[rid].from != remote ==> final(self).fetching@ == old(self).fetching@
//@      head
//@        proof { ids_lawful(); }
//@end

//@canary
} // verus!
fn main() {}
