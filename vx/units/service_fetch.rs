// Unit `service_fetch` (C16, C13): a worker's fetch result is applied only to the fetch it belongs to.
// Real code: Service::fetched, Service::queue_fetch (crates/radicle-node/src/service.rs).
use vstd::prelude::*;
use std::collections::{HashMap, HashSet};
//@include _prelude.rs

verus! {
//@include _panic.rs

// ---- environment (declarations only; `&mut self` stand-ins have arbitrary effect unless stated) ------
#[derive(Clone, Copy, PartialEq, Eq, Hash, Debug)] pub struct NodeId(pub [u8; 32]);
#[derive(Clone, Copy, PartialEq, Eq, Hash, Debug)] pub struct RepoId(pub [u8; 20]);
/// ASSUMED (derive(PartialEq, Hash) on byte-array newtypes): structural equality, lawful hashing.
#[verifier::external_body]
pub proof fn ids_lawful()
    ensures vstd::std_specs::hash::obeys_key_model::<RepoId>(),
        vstd::std_specs::hash::builds_valid_hashers::<std::collections::hash_map::RandomState>(),
        <NodeId as vstd::std_specs::cmp::PartialEqSpec>::obeys_eq_spec(),
        forall|a: NodeId, b: NodeId| #[trigger] vstd::std_specs::cmp::PartialEqSpec::eq_spec(&a, &b) <==> a == b,
{}
#[derive(Clone, Copy, Debug)] pub struct LocalTime { pub ms: u64 }
#[derive(Clone, Copy, Debug)] pub struct Timestamp(pub u64);
impl From<LocalTime> for Timestamp { #[verifier::external_body] fn from(t: LocalTime) -> Self { unimplemented!() } }
#[derive(Debug, Clone)] pub struct RefsAt;
#[derive(Debug, Clone)] pub struct RefUpdate;
impl RefUpdate { #[verifier::external_body] pub fn is_skipped(&self) -> bool { unimplemented!() } }
pub struct Doc;
pub struct DocAt;
impl DocAt { #[verifier::external_body] pub fn is_public(&self) -> bool { unimplemented!() } }
impl From<DocAt> for Doc { #[verifier::external_body] fn from(d: DocAt) -> Self { unimplemented!() } }
pub mod fetch {
    pub struct FetchResult { pub updated: Vec<crate::RefUpdate>, pub namespaces: std::collections::HashSet<crate::NodeId>, pub clone: bool, pub doc: crate::DocAt }
}
pub struct FetchError;
impl FetchError {
    #[verifier::external_body] pub fn is_timeout(&self) -> bool { unimplemented!() }
    #[verifier::external_body] pub fn to_string(&self) -> String { unimplemented!() }
}
/// node::FetchResult (what subscribers receive)
pub enum FetchResult { Success { updated: Vec<RefUpdate>, namespaces: HashSet<NodeId>, clone: bool }, Failed { reason: String } }
pub mod chan {
    pub struct SendError;
    #[derive(Debug)] pub struct Sender<T>(pub T);
    impl<T> Sender<T> { #[verifier::external_body] pub fn send(&self, t: T) -> Result<(), SendError> { unimplemented!() } }
}
#[verifier::external_body] pub fn vx_clone_updates(v: &Vec<RefUpdate>) -> Vec<RefUpdate> { unimplemented!() }
#[verifier::external_body] pub fn vx_clone_namespaces(v: &HashSet<NodeId>) -> HashSet<NodeId> { unimplemented!() }
/// stand-in for `updated.iter().all(|u| u.is_skipped())` (iterator adapter + closure): result arbitrary
#[verifier::external_body] pub fn vx_all_skipped(v: &Vec<RefUpdate>) -> bool { unimplemented!() }
pub enum Event { RefsFetched { remote: NodeId, rid: RepoId, updated: Vec<RefUpdate> }, PeerDisconnected { nid: NodeId, reason: String } }
pub struct Emitter<T>(pub T);
impl<T> Emitter<T> { #[verifier::external_body] pub fn emit(&self, e: T) { unimplemented!() } }
pub enum DisconnectReason { Dial(DialError), Fetch(FetchError), Connection(ConnError), Session(SessionError), Command, Conflict, SelfConnection }
pub mod time { #[derive(Clone, Copy)] pub struct Duration; }
#[derive(Clone, Copy)] pub struct FetchPackSizeLimit;
pub struct Outbox;
impl Outbox {
    #[verifier::external_body] pub fn wakeup(&mut self, d: LocalDuration) { unimplemented!() }
    #[verifier::external_body] pub fn disconnect(&mut self, remote: NodeId, reason: DisconnectReason) { unimplemented!() }
    /// SINK (C13, C16): hands the fetch to the worker and calls Session::fetching(rid), which (unit `session`) panics unless the
    /// session is connected and not already fetching `rid`, and must stay within the per-peer concurrency limit.
    #[verifier::external_body]
    pub fn fetch(&mut self, peer: &mut Session, rid: RepoId, refs_at: Vec<RefsAt>, timeout: time::Duration, reader_limit: FetchPackSizeLimit)
        requires
            old(peer).connected(),                  //[C13]
            !old(peer).fetching_rid(rid),           //[C13,C16]
            !old(peer).at_capacity(),               //[C16]
    { unimplemented!() }
}
pub struct Session { pub id: NodeId, pub link: Link, pub addr: Address }
impl Session {
    pub uninterp spec fn connected(self) -> bool;
    pub uninterp spec fn at_capacity(self) -> bool;
    pub uninterp spec fn fetching_rid(self, rid: RepoId) -> bool;
    /// Session::{is_connected, is_at_capacity, is_fetching}: verified in unit `session`
    #[verifier::external_body] pub fn is_connected(&self) -> (r: bool) ensures r == self.connected() { unimplemented!() }
    /// the other state predicates of Session (state is Disconnected / Initial / Attempted): exclusive with `connected`
    pub uninterp spec fn disconnected(self) -> bool;
    #[verifier::external_body] pub fn is_disconnected(&self) -> (r: bool) ensures r == self.disconnected(), r ==> !self.connected() { unimplemented!() }
    #[verifier::external_body] pub fn is_initial(&self) -> (r: bool) ensures r ==> !self.connected() { unimplemented!() }
    #[verifier::external_body] pub fn is_connecting(&self) -> (r: bool) ensures r ==> !self.connected() { unimplemented!() }
    #[verifier::external_body] pub fn is_at_capacity(&self) -> (r: bool) ensures r == self.at_capacity() { unimplemented!() }
    #[verifier::external_body] pub fn is_fetching(&self, rid: &RepoId) -> (r: bool) ensures r == self.fetching_rid(*rid) { unimplemented!() }
    #[verifier::external_body] pub fn attempts(&self) -> usize { unimplemented!() }
    #[verifier::external_body] pub fn to_disconnected(&mut self, since: LocalTime, retry_at: LocalTime) { unimplemented!() }
    /// per-session bookkeeping, verified in unit `session`
    #[verifier::external_body] pub fn fetched(&mut self, rid: RepoId) { unimplemented!() }
    #[verifier::external_body] pub fn queue_fetch(&mut self, f: QueuedFetch) -> (r: Result<(), QueueError>) requires f.from == old(self).id { unimplemented!() }
}
pub struct QueuedFetch { pub rid: RepoId, pub from: NodeId }
pub struct QueueError;
impl QueueError { #[verifier::external_body] pub fn inner(&self) -> &QueuedFetch { unimplemented!() } }
pub struct Sessions { pub opaque: u64 } // (a field: states of the session table are distinguishable values)
impl Sessions {
    /// ghost: the session of `nid` (if any) records `rid` as being fetched
    pub uninterp spec fn fetching_from(self, nid: NodeId, rid: RepoId) -> bool;
    /// ghost: the link of the session of `nid`, if there is a session
    pub uninterp spec fn link_of(self, nid: NodeId) -> Option<Link>;
    /// ASSUMED: sessions are keyed by node id
    #[verifier::external_body]
    pub fn get_mut(&mut self, id: &NodeId) -> (r: Option<&mut Session>)
        ensures r is Some ==> r->Some_0.id == *id && (forall|rid: RepoId| #[trigger] r->Some_0.fetching_rid(rid) == old(self).fetching_from(*id, rid)),
            (r is Some) == (old(self).link_of(*id) is Some), r is Some ==> Some(r->Some_0.link) == old(self).link_of(*id)
    { unimplemented!() }
    #[verifier::external_body] pub fn remove(&mut self, id: &NodeId) -> Option<Session> { unimplemented!() }
}
// ---- std::collections::hash_map::Entry API, by contract (the std types hold a `&mut` into the map) --------------------
pub struct VxVacant<'a> { pub map: &'a mut HashMap<RepoId, FetchState>, pub key: RepoId }
pub struct VxOccupied<'a> { pub map: &'a mut HashMap<RepoId, FetchState>, pub key: RepoId }
pub enum Entry<'a> { Vacant(VxVacant<'a>), Occupied(VxOccupied<'a>) }
/// ASSUMED (HashMap::entry): Occupied exactly when the key is present; the entry is a reborrow of the map
#[verifier::external_body]
pub fn vx_entry<'a>(m: &'a mut HashMap<RepoId, FetchState>, key: RepoId) -> (r: Entry<'a>)
    ensures (r is Occupied) == old(m)@.contains_key(key),
        r matches Entry::Vacant(v) ==> v.key == key && *v.map == *old(m) && *final(v.map) == *final(m),
        r matches Entry::Occupied(o) ==> o.key == key && *o.map == *old(m) && *final(o.map) == *final(m),
{ unimplemented!() }
impl<'a> VxVacant<'a> {
    /// ASSUMED (VacantEntry::insert): adds the entry and returns a reference to the value in the map
    #[verifier::external_body]
    pub fn insert(self, v: FetchState) -> (r: &'a mut FetchState)
        ensures *r == v, final(self.map)@ == old(self.map)@.insert(self.key, *final(r))
    { unimplemented!() }
}
impl<'a> VxOccupied<'a> {
    /// ASSUMED (OccupiedEntry::into_mut): a reference to the value in the map; nothing else changes
    #[verifier::external_body]
    pub fn into_mut(self) -> (r: &'a mut FetchState)
        ensures old(self.map)@.contains_key(self.key), *r == old(self.map)@[self.key], final(self.map)@ == old(self.map)@.insert(self.key, *final(r))
    { unimplemented!() }
}
pub struct NamespacesError;
// ---- environment of Service::disconnected ---------------------------------------------------------------------------
#[derive(Clone, Copy, PartialEq, Eq, Debug)] pub enum Link { Outbound, Inbound }
/// ASSUMED (derive(PartialEq) on a fieldless enum): structural equality
impl vstd::std_specs::cmp::PartialEqSpecImpl for Link { open spec fn obeys_eq_spec() -> bool { true } open spec fn eq_spec(&self, o: &Self) -> bool { *self == *o } }
impl Link { #[verifier::external_body] pub fn is_outbound(&self) -> bool { unimplemented!() } }
#[derive(Clone)] pub struct Address;
#[derive(Clone, Copy)] pub struct LocalDuration { pub ms: u64 }
pub const MIN_RECONNECTION_DELTA: LocalDuration = LocalDuration { ms: 3_000 };
pub const MAX_RECONNECTION_DELTA: LocalDuration = LocalDuration { ms: 3_600_000 };
/// stand-in for `LocalDuration::from_secs(2u64.saturating_pow(attempts as u32)).clamp(MIN, MAX)`: result arbitrary
#[verifier::external_body] pub fn vx_backoff(attempts: usize) -> LocalDuration { unimplemented!() }
/// stand-in for `since + delay` (LocalTime + LocalDuration)
#[verifier::external_body] pub fn vx_time_add(t: LocalTime, d: LocalDuration) -> LocalTime { unimplemented!() }
pub enum Severity { Low, Medium, High }
pub struct SessionError; impl SessionError { #[verifier::external_body] pub fn severity(&self) -> Severity { unimplemented!() } }
pub struct DialError; pub struct ConnError;
/// stand-in for `format!("disconnected: {reason}")` / `reason.to_string()`
#[verifier::external_body] pub fn vx_reason(reason: &DisconnectReason) -> String { unimplemented!() }
pub mod address { pub struct Error; pub struct Store;
    impl Store { #[verifier::external_body] pub fn disconnected(&mut self, nid: &crate::NodeId, addr: &crate::Address, sev: crate::Severity) -> Result<bool, Error> { unimplemented!() } } }
/// ASSUMED (HashMap::retain with the lifted predicate `Service::vx_retain_step`): keeps exactly the entries for which the
/// predicate returns true, leaving them unchanged; the predicate's contract is verified on the real closure body.
#[verifier::external_body]
pub fn vx_retain_not_from(m: &mut HashMap<RepoId, FetchState>, remote: NodeId, reason: &DisconnectReason)
    ensures forall|k: RepoId| #[trigger] final(m)@.contains_key(k) <==> (old(m)@.contains_key(k) && old(m)@[k].from != remote),
        forall|k: RepoId| #[trigger] final(m)@.contains_key(k) ==> final(m)@[k] == old(m)@[k],
        forall|k: RepoId| #[trigger] old(m)@.contains_key(k) && old(m)@[k].from != remote ==> final(m)@.contains_key(k) && final(m)@[k] == old(m)@[k],
{ unimplemented!() }

pub struct Limits { pub fetch_pack_receive: FetchPackSizeLimit }
pub struct PeerConfig;
pub struct Config { pub limits: Limits }
impl Config { #[verifier::external_body] pub fn peer(&self, nid: &NodeId) -> Option<&PeerConfig> { unimplemented!() } }
pub struct Device<G>(pub G); pub struct Stores<D>(pub D);
impl<D> Stores<D> { #[verifier::external_body] pub fn addresses_mut(&mut self) -> &mut address::Store { unimplemented!() } }
pub trait Store {} pub trait ReadStorage {}
pub mod crypto { pub struct Signature; pub mod signature { pub trait Signer<T> {} } }
#[derive(Debug)] pub struct Error;

//@extract crates/radicle-node/src/service.rs
//@  item struct FetchState
//@    derive
//@  item enum TryFetchError
//@    derive
//@  item struct Service
//@    fields config, signer, storage, db, sessions, clock, outbox, fetching, emitter
//@  impl <D, S, G> Service<D, S, G> where D: Store, S: ReadStorage + 'static, G: crypto::signature::Signer<crypto::Signature>,
//@    add
//@      // -- the rest of the service, out of scope of this unit: arbitrary effects
//@      #[verifier::external_body] fn seed_discovered(&mut self, rid: RepoId, nid: NodeId, time: Timestamp) { unimplemented!() }
//@      #[verifier::external_body] fn add_inventory(&mut self, rid: RepoId) -> Result<bool, Error> { unimplemented!() }
//@      #[verifier::external_body] fn announce_refs(&mut self, rid: RepoId, doc: Doc, namespaces: HashSet<NodeId>) -> Result<(), Error> { unimplemented!() }
//@      /// starts queued fetches (through try_fetch, which only ever adds an entry for a repository that has none): ASSUMED to keep
//@      /// every existing entry of the fetch table
//@      #[verifier::external_body] pub fn dequeue_fetches(&mut self)
//@          ensures forall|k: RepoId| #[trigger] old(self).fetching@.contains_key(k) ==> final(self).fetching@.contains_key(k) && final(self).fetching@[k] == old(self).fetching@[k]
//@      { unimplemented!() }
//@      #[verifier::external_body] pub fn local_time(&self) -> LocalTime { unimplemented!() }
//@      #[verifier::external_body] pub fn is_online(&self) -> bool { unimplemented!() }
//@      /// connection management: ASSUMED not to touch the fetch table
//@      #[verifier::external_body] pub fn maintain_connections(&mut self) ensures final(self).fetching@ == old(self).fetching@ { unimplemented!() }
//@      /// representation invariant linking the two fetch tables (from the statement of C16: one fetch per repository,
//@      /// attributed to one peer): a session records `rid` as being fetched only if the service's table maps `rid` to that peer
//@      pub open spec fn wf(self) -> bool {
//@          forall|nid: NodeId, rid: RepoId| #[trigger] self.sessions.fetching_from(nid, rid) ==> self.fetching@.contains_key(rid) && self.fetching@[rid].from == nid
//@      }
//@    fn try_fetch
//@      ret r
//@      # the Entry API of std (types holding a `&mut` into the map) is represented by stand-ins with the same shape
//@      body_sub self\.fetching\.entry\(rid\) => vx_entry(&mut self.fetching, rid)
//@      requires
//@        old(self).wf()
//@      ensures
//@        # C16: a fetch of `rid` is started only if none is in progress, and is attributed to `from`
//@        r is Ok ==> !old(self).fetching@.contains_key(rid) && final(self).fetching@ == old(self).fetching@.insert(rid, *final(r->Ok_0)) && r->Ok_0.from == *from //[C16]
//@        r matches Err(TryFetchError::SessionNotConnected) ==> final(self).fetching@ == old(self).fetching@ //[C16]
//@        r matches Err(TryFetchError::SessionCapacityReached) ==> final(self).fetching@ == old(self).fetching@ //[C16]
//@      head
//@        proof { ids_lawful(); }
//@    fn disconnected
//@      attr #[verifier::exec_allows_no_decreases_clause]
//@      # the predicate closure of `retain` is lifted (body verbatim) so that it can carry a contract; `retain` itself by contract
//@      lift_closure vx_retain_step self\.fetching\.retain\(
//@        sig (_k: &RepoId, fetching: &mut FetchState, remote: NodeId, reason: &DisconnectReason) -> (keep: bool)
//@        head
//@          proof { ids_lawful(); }
//@        ensures
//@          keep == (old(fetching).from != remote)
//@          *final(fetching) == *old(fetching)
//@      body_sub self\.fetching\.retain\(Self::vx_retain_step => vx_retain_not_from(&mut self.fetching, remote, reason
//@      body_sub for resp in &fetching\.subscribers => for resp in fetching.subscribers.iter()
//@      body_sub format!\("disconnected: \{reason\}"\) => vx_reason(reason)
//@      body_sub reason\.to_string\(\) => vx_reason(reason)
//@      body_sub (?s)LocalDuration::from_secs\(2u64\.saturating_pow\(session\.attempts\(\) as u32\)\)\s*\.clamp\(MIN_RECONNECTION_DELTA, MAX_RECONNECTION_DELTA\) => vx_backoff(session.attempts())
//@      body_sub since \+ delay => vx_time_add(since, delay)
//@      ensures
//@        # C16: a disconnect event never cancels a fetch that runs on another peer's session ...
//@        forall|k: RepoId| #[trigger] old(self).fetching@.contains_key(k) && old(self).fetching@[k].from != remote ==> final(self).fetching@.contains_key(k) && final(self).fetching@[k] == old(self).fetching@[k] //[C16]
//@        # ... and cancels nothing at all when it is about the other link of a connection crossing (the session stays up)
//@        # or about a peer without a session
//@        old(self).sessions.link_of(remote) != Some(link) ==> final(self).fetching@ == old(self).fetching@ //[C16]
//@        # ... while a disconnect of the session's own link leaves no fetch attributed to that peer behind (before queued fetches are started)
//@      hint? 1 if self\.config\.peer\(&remote\)\.is_some\(\)
//@        assert forall|k: RepoId| #[trigger] old(self).fetching@.contains_key(k) && old(self).fetching@[k].from != remote implies self.fetching@.contains_key(k) && self.fetching@[k] == old(self).fetching@[k] by {}
//@      hint? 1 if link\.is_outbound\(\)
//@        assert forall|k: RepoId| #[trigger] old(self).fetching@.contains_key(k) && old(self).fetching@[k].from != remote implies self.fetching@.contains_key(k) && self.fetching@[k] == old(self).fetching@[k] by {}
//@      hint? 1 self\.dequeue_fetches\(\);
//@        assert forall|k: RepoId| #[trigger] old(self).fetching@.contains_key(k) && old(self).fetching@[k].from != remote implies self.fetching@.contains_key(k) && self.fetching@[k] == old(self).fetching@[k] by {}
//@      head
//@        proof { ids_lawful(); }
//@    fn queue_fetch
//@    fn fetched
//@      attr #[verifier::exec_allows_no_decreases_clause]
//@      body_sub for sub in &fetching\.subscribers => for sub in fetching.subscribers.iter()
//@      body_sub for update in &updated => for update in updated.iter()
//@      body_sub updated: success\.updated\.clone\(\) => updated: vx_clone_updates(&success.updated)
//@      body_sub namespaces: success\.namespaces\.clone\(\) => namespaces: vx_clone_namespaces(&success.namespaces)
//@      body_sub updated: updated\.clone\(\) => updated: vx_clone_updates(&updated)
//@      body_sub updated\.iter\(\)\.all\(\|u\| u\.is_skipped\(\)\) => vx_all_skipped(&updated)
//@      ensures
//@        # C16: a result from `remote` never disturbs a fetch of `rid` that belongs to another peer
//@        old(self).fetching@.contains_key(rid) && old(self).fetching@[rid].from != remote ==> final(self).fetching@ == old(self).fetching@
//@      head
//@        proof { ids_lawful(); }
//@end

//@canary
} // verus!
fn main() {}
