// ---- std::io model (inside verus!) ------------------------------------------------------------
// io::Error / io::ErrorKind are opaque; `io_kind` is the ghost kind of an error.
#[verifier::external_type_specification]
#[verifier::external_body]
pub struct ExIoError(std::io::Error);
#[verifier::external_type_specification]
pub struct ExErrorKind(std::io::ErrorKind);

pub uninterp spec fn io_kind(e: std::io::Error) -> std::io::ErrorKind;
/// ASSUMED (std): Error::kind / From<ErrorKind> / ErrorKind == behave as the ghost `io_kind` says.
pub assume_specification [std::io::Error::kind] (e: &std::io::Error) -> (k: std::io::ErrorKind)
    ensures k == io_kind(*e);
pub assume_specification [<std::io::Error as From<std::io::ErrorKind>>::from] (k: std::io::ErrorKind) -> (e: std::io::Error)
    ensures io_kind(e) == k;
pub assume_specification [<std::io::ErrorKind as PartialEq>::eq] (a: &std::io::ErrorKind, b: &std::io::ErrorKind) -> (r: bool)
    ensures r == (*a == *b);
/// ASSUMED (std): `ErrorKind::into()` (blanket Into over From<ErrorKind> for io::Error) yields an error of that kind.
#[verifier::external_body]
pub proof fn std_io_error_from_kind()
    ensures <std::io::Error as vstd::std_specs::convert::FromSpec<std::io::ErrorKind>>::obeys_from_spec(),
        forall|k: std::io::ErrorKind| io_kind(#[trigger] <std::io::Error as vstd::std_specs::convert::FromSpec<std::io::ErrorKind>>::from_spec(k)) == k
{}
pub open spec fn is_eof_kind(e: std::io::Error) -> bool { io_kind(e) == std::io::ErrorKind::UnexpectedEof }

/// ASSUMED (std::io::Read): a reader is a ghost byte stream `rem()`; `read_exact(buf)` either fills `buf`
/// with the next `buf.len()` bytes and consumes them, or fails with UnexpectedEof because fewer remain.
/// NB: always write `(*old(r)).rem()` / `(*final(r)).rem()`: `old(r).rem()` resolves to `<&mut R as Read>`.
#[verifier::external_trait_specification]
#[verifier::external_trait_extension(ReadSpec via ReadSpecImpl)]
pub trait ExRead {
    type ExternalTraitSpecificationFor: std::io::Read;
    spec fn rem(&self) -> Seq<u8>;
    /// ghost: number of bytes consumed from this reader so far
    spec fn consumed(&self) -> nat;
    /// ASSUMED (std::io::Read::read on a blocking stream): transfers the next n <= buf.len() bytes; n == 0 only at end of
    /// stream (or for an empty buffer)
    fn read(&mut self, buf: &mut [u8]) -> (r: Result<usize, std::io::Error>)
        ensures
            final(buf)@.len() == old(buf)@.len(),
            r is Ok ==> r->Ok_0 <= old(buf)@.len() && r->Ok_0 <= old(self).rem().len(),
            r is Ok ==> final(buf)@.take(r->Ok_0 as int) == old(self).rem().take(r->Ok_0 as int),
            r is Ok ==> final(self).rem() == old(self).rem().skip(r->Ok_0 as int),
            r is Ok ==> final(self).consumed() == old(self).consumed() + r->Ok_0,
            r is Ok && r->Ok_0 == 0 ==> old(buf)@.len() == 0 || old(self).rem().len() == 0,
            // (consequence of the above, stated for the solver) a completely filled buffer is a prefix of the stream
            r is Ok && r->Ok_0 == old(buf)@.len() ==> old(self).rem() =~= final(buf)@ + final(self).rem(),
        ;
    fn read_exact(&mut self, buf: &mut [u8]) -> (r: Result<(), std::io::Error>)
        ensures
            final(buf)@.len() == old(buf)@.len(),
            r is Ok ==> old(self).rem().len() >= old(buf)@.len(),
            r is Ok ==> final(buf)@ == old(self).rem().take(old(buf)@.len() as int),
            r is Ok ==> final(self).rem() == old(self).rem().skip(old(buf)@.len() as int),
            r is Ok ==> final(self).consumed() == old(self).consumed() + old(buf)@.len(),
            r is Err ==> is_eof_kind(r->Err_0) && old(self).rem().len() < old(buf)@.len(),
            r is Err ==> old(self).rem().len() < old(buf)@.len(),
        ;
}

/// stand-in for std::io::Cursor (the std type implements Read through `AsRef<[u8]>`, which Verus cannot see)
pub struct Cursor<T> { pub inner: T, pub pos: usize }
impl<T> Cursor<T> {
    pub fn new(inner: T) -> (c: Cursor<T>) ensures c.inner == inner, c.pos == 0 { Cursor { inner, pos: 0 } }
    pub fn position(&self) -> (p: u64) ensures p == self.pos { self.pos as u64 }
    pub fn get_ref(&self) -> (r: &T) ensures *r == self.inner { &self.inner }
}
pub open spec fn cursor_rem(all: Seq<u8>, pos: usize) -> Seq<u8> { if pos <= all.len() { all.skip(pos as int) } else { Seq::empty() } }
/// ASSUMED (std::io::Cursor): reading consumes from `inner[pos..]` and advances `pos` by the bytes consumed;
/// `inner` is never modified by reads.
impl std::io::Read for Cursor<Vec<u8>> {
    #[verifier::external_body]
    fn read(&mut self, buf: &mut [u8]) -> (r: Result<usize, std::io::Error>) { unimplemented!() }
}
impl ReadSpecImpl for Cursor<Vec<u8>> {
    open spec fn rem(&self) -> Seq<u8> { cursor_rem(self.inner@, self.pos) }
    open spec fn consumed(&self) -> nat { self.pos as nat }
}
impl<'a> std::io::Read for Cursor<&'a [u8]> {
    #[verifier::external_body]
    fn read(&mut self, buf: &mut [u8]) -> (r: Result<usize, std::io::Error>) { unimplemented!() }
}
impl<'a> ReadSpecImpl for Cursor<&'a [u8]> {
    open spec fn rem(&self) -> Seq<u8> { cursor_rem(self.inner@, self.pos) }
    open spec fn consumed(&self) -> nat { self.pos as nat }
}

/// ASSUMED (std::io): `Read::take(&mut *r, limit).read_to_end(buf)` over the in-memory stream model appends the
/// next min(limit, remaining) bytes to `buf`, consumes exactly those, and never fails; `buf` grows only by bytes
/// actually read (Vec's amortised doubling: at most a constant factor of the bytes received, never the declared limit).
/// Call sites spelled `(&mut *reader).take(n).read_to_end(&mut v)` are renamed to this stand-in mechanically.
#[verifier::external_body]
pub fn vx_take_read_to_end<R: std::io::Read + ?Sized>(r: &mut R, limit: u64, buf: &mut Vec<u8>) -> (res: Result<usize, std::io::Error>)
    ensures
        res is Ok,
        ({
            let n = if (*old(r)).rem().len() < limit { (*old(r)).rem().len() } else { limit as nat };
            &&& res->Ok_0 == n
            &&& final(buf)@ =~= old(buf)@ + (*old(r)).rem().take(n as int)
            &&& (*final(r)).rem() =~= (*old(r)).rem().skip(n as int)
            &&& (*final(r)).consumed() == (*old(r)).consumed() + n
        }),
{ std::io::Read::read_to_end(&mut std::io::Read::take(r, limit), buf) }
