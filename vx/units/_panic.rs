// (inside verus!) targets of the panicking macros of the prelude
#[verifier::external_body]
pub fn vx_panic() -> ! requires false { loop { } }
pub fn vx_assert(c: bool) requires c {}

/// ghost: number of bytes actually received from the peer on this connection so far
pub uninterp spec fn vx_received() -> nat;
/// allocations sized by untrusted input must stay within received bytes + this constant (64 KiB = wire::Size::MAX + 1)
pub const VX_ALLOC_SLACK: usize = 65536;
/// ASSUMED (alloc): `vec![e; n]` allocates `n` elements; the precondition is the C14 allocation budget.
#[verifier::external_body]
pub fn vx_alloc_vec<T: Clone>(e: T, n: usize) -> (v: Vec<T>)
    requires n <= vx_received() + VX_ALLOC_SLACK
    ensures v@.len() == n, forall|i: int| 0 <= i < n ==> v@[i] == e
{ std::vec::from_elem(e, n) }

/// ASSUMED (alloc): Vec::with_capacity(n) allocates room for n elements; same budget precondition.
#[verifier::external_body]
pub fn vx_vec_with_capacity<T>(n: usize) -> (v: Vec<T>)
    requires n <= vx_received() + VX_ALLOC_SLACK
    ensures v@.len() == 0
{ Vec::with_capacity(n) }

/// ASSUMED (core): the reflexive `impl<T> From<T> for T` is the identity.
#[verifier::external_body]
pub proof fn std_from_refl<T>()
    ensures <T as vstd::std_specs::convert::FromSpec<T>>::obeys_from_spec(),
        forall|a: T| #[trigger] <T as vstd::std_specs::convert::FromSpec<T>>::from_spec(a) == a
{}

#[verifier::external_type_specification]
pub struct ExLogLevel(crate::log::Level);
