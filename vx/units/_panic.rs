// (inside verus!) targets of the panicking macros of the prelude
#[verifier::external_body]
pub fn vx_panic() -> ! requires false { loop { } }
pub fn vx_assert(c: bool) requires c {}
