// Unit `storage_clean` (C28): cleaning a repository never deletes the local or a delegate namespace, and the
// whole repository is removed only when the local node has no signed refs. Real code: Repository::clean and
// <Storage as WriteStorage>::clean in crates/radicle/src/storage/git.rs.
use vstd::prelude::*;
use std::collections::BTreeSet;
//@include _prelude.rs

verus! {
//@include _panic.rs

// ---- environment (declarations only) ---------------------------------------------------------------
#[derive(Clone, Copy, PartialEq, Eq, PartialOrd, Ord, Debug)] pub struct RemoteId(pub [u8; 32]);
#[derive(Clone, Copy, PartialEq, Eq, Debug)] pub struct RepoId(pub [u8; 20]);
#[derive(Debug)] pub struct RepositoryError;
#[derive(Debug)] pub struct Error;
impl From<Error> for RepositoryError { #[verifier::external_body] fn from(e: Error) -> Self { RepositoryError } }
pub struct Oid;
pub struct UserInfo { pub key: RemoteId }

/// ASSUMED (rustc derive(Ord) on a byte array newtype): lawful total order, so BTreeSet::contains is membership.
#[verifier::external_body]
pub proof fn remote_id_ord_lawful() ensures vstd::laws_cmp::obeys_cmp_spec::<RemoteId>() {}

/// ASSUMED (rustc derive(PartialEq) on a byte-array newtype): `==` is structural equality.
#[verifier::external_body]
pub proof fn remote_id_eq_structural()
    ensures <RemoteId as vstd::std_specs::cmp::PartialEqSpec>::obeys_eq_spec(),
        forall|a: RemoteId, b: RemoteId| #[trigger] vstd::std_specs::cmp::PartialEqSpec::eq_spec(&a, &b) <==> a == b
{}

// ghost state
/// the delegates of the repository's current identity document
pub uninterp spec fn is_delegate(rid: RepoId, id: RemoteId) -> bool;
/// the local node has a `rad/sigrefs` in this repository
pub uninterp spec fn has_sigrefs(rid: RepoId, local: RemoteId) -> bool;
/// namespaces that must never be deleted in the current call (ghost parameter, fixed by each entry point's `requires`)
pub uninterp spec fn protected(id: RemoteId) -> bool;

pub struct Delegates { pub rid: RepoId }
/// `Did` (derefs to the key) and the delegate list mapped to keys (`NonEmpty::map`), in identity-document order
#[derive(Clone, Copy)] pub struct Did(pub RemoteId);
impl std::ops::Deref for Did { type Target = RemoteId; fn deref(&self) -> (r: &RemoteId) ensures *r == self.0 { &self.0 } }
pub struct DelegateKeys { pub rid: RepoId, pub opaque: u64 }
impl View for DelegateKeys { type V = Set<RemoteId>; uninterp spec fn view(&self) -> Set<RemoteId>; }
impl Delegates {
    /// stand-in for `NonEmpty<Did>::map(|did| *did)`: ASSUMED to list exactly the delegate keys (the closure is the deref copy), unsorted
    #[verifier::external_body]
    pub fn map<F: FnMut(Did) -> RemoteId>(self, f: F) -> (r: DelegateKeys) ensures r.rid == self.rid, forall|id: RemoteId| r@.contains(id) <==> is_delegate(self.rid, id) { unimplemented!() }
}
impl DelegateKeys {
    /// ASSUMED (slice::binary_search on a list that is NOT known to be sorted): Ok names a present element; a present
    /// element may be reported absent
    #[verifier::external_body]
    pub fn binary_search(&self, k: &RemoteId) -> (r: Result<usize, usize>) ensures r is Ok ==> self@.contains(*k) { unimplemented!() }
}
/// stand-in for `.into_iter().map(|did| *did).collect::<BTreeSet<_>>()` over the delegates (iterator adapters):
/// ASSUMED to produce exactly the set of delegate keys.
#[verifier::external_body]
pub fn vx_delegate_keys(d: Delegates) -> (s: BTreeSet<RemoteId>)
    ensures forall|id: RemoteId| s@.contains(id) <==> is_delegate(d.rid, id)
{ unimplemented!() }

pub struct RefString { pub ns: RemoteId }
impl RefString { #[verifier::external_body] pub fn as_str(&self) -> (r: &RefString) ensures *r == *self { unimplemented!() } }
pub struct Glob { pub ns: RemoteId }
/// stand-in for `git::refname!("refs/namespaces").join(git::Component::from(&id)).with_pattern(git::refspec::STAR)`:
/// ASSUMED: the pattern names exactly the refs under namespace `id`.
#[verifier::external_body]
pub fn vx_namespace_glob(id: &RemoteId) -> (g: Glob) ensures g.ns == *id { unimplemented!() }

/// iterator stand-ins (finite sequences; `next` pops the front)
pub struct RemoteIds { pub items: Ghost<Seq<Result<RemoteId, Error>>> }
impl RemoteIds { #[verifier::external_body] pub fn next(&mut self) -> (r: Option<Result<RemoteId, Error>>) { unimplemented!() } }
pub struct Refs { pub ns: RemoteId }
impl Refs {
    /// ASSUMED: every reference produced by `references_glob(refs/namespaces/<id>/*)` lies in namespace `<id>`.
    #[verifier::external_body]
    pub fn next(&mut self) -> (r: Option<(RefString, Oid)>)
        ensures final(self).ns == old(self).ns, r is Some ==> r->Some_0.0.ns == old(self).ns
    { unimplemented!() }
}
pub struct Reference { pub ns: RemoteId }
impl Reference {
    /// SINK: deleting a reference of namespace `ns`. Its precondition is the property.
    #[verifier::external_body]
    pub fn delete(&mut self) -> (r: Result<(), Error>) requires !protected(old(self).ns) { unimplemented!() }
}
pub mod git2 { pub use crate::Backend as Repository; }
pub struct Backend;
impl Backend {
    #[verifier::external_body]
    pub fn find_reference(&self, name: &RefString) -> (r: Result<Reference, Error>) ensures r is Ok ==> r->Ok_0.ns == name.ns { unimplemented!() }
}
pub struct SignedRefsAt;
impl SignedRefsAt {
    /// ASSUMED: load(key, repo) finds a value exactly when `key` has signed refs in `repo` (or fails).
    #[verifier::external_body]
    pub fn load(key: RemoteId, repo: &Repository) -> (r: Result<Option<SignedRefsAt>, RepositoryError>)
        ensures r is Ok ==> (r->Ok_0 is Some) == has_sigrefs(repo.id, key)
    { unimplemented!() }
}
/// stand-in for `repo.remote_ids()?.collect::<Result<_, _>>()?` (iterator adapter)
#[verifier::external_body]
pub fn vx_collect_remotes(it: RemoteIds) -> Result<Vec<RemoteId>, RepositoryError> { unimplemented!() }

/// declaration of the one method of `radicle::storage::WriteStorage` used here; the contract is the C28 statement
pub trait WriteStorage {
    type RepositoryMut;
    spec fn node_key(&self) -> RemoteId;
    fn clean(&self, rid: RepoId) -> (r: Result<Vec<RemoteId>, RepositoryError>)
        requires
            self.node_key() == local_key(),
            forall|id: RemoteId| protected(id) <==> (id == local_key() || is_delegate(rid, id)),
        ensures
            r is Ok && has_sigrefs(rid, local_key()) ==> forall|i: int| 0 <= i < r->Ok_0@.len() ==> !protected(#[trigger] r->Ok_0@[i]);
}

//@extract crates/radicle/src/storage/git.rs
//@  item struct Storage
//@    fields info
//@  item struct Repository
//@    fields id, backend
//@  impl Repository
//@    add
//@      #[verifier::external_body]
//@      pub fn delegates(&self) -> (r: Result<Delegates, RepositoryError>) ensures r is Ok ==> r->Ok_0.rid == self.id { unimplemented!() }
//@      #[verifier::external_body]
//@      pub fn remote_ids(&self) -> Result<RemoteIds, Error> { unimplemented!() }
//@      #[verifier::external_body]
//@      pub fn references_glob(&self, g: &Glob) -> (r: Result<Refs, Error>) ensures r is Ok ==> r->Ok_0.ns == g.ns { unimplemented!() }
//@      /// SINK: removes the whole repository from storage
//@      #[verifier::external_body]
//@      pub fn remove(&self) -> (r: Result<(), Error>) requires !has_sigrefs(self.id, local_key()) { unimplemented!() }
//@    fn clean
//@      attr #[verifier::exec_allows_no_decreases_clause]
//@      desugar_try
//@      desugar_for
//@      nloops 2
//@      body_sub self\s*\.delegates\(\)\?\s*\.into_iter\(\)\s*\.map\(\|did\| \*did\)\s*\.collect::<BTreeSet<_>>\(\) => vx_delegate_keys(self.delegates()?)
//@      body_sub git::refname!\("refs/namespaces"\)\s*\.join\(git::Component::from\(&id\)\)\s*\.with_pattern\(git::refspec::STAR\) => vx_namespace_glob(&id)
//@      ret r
//@      requires
//@        forall|id: RemoteId| protected(id) <==> (id == *local || is_delegate(self.id, id))
//@      ensures
//@        r is Ok ==> forall|i: int| 0 <= i < r->Ok_0@.len() ==> !protected(#[trigger] r->Ok_0@[i])
//@      head
//@        proof { remote_id_ord_lawful(); remote_id_eq_structural(); }
//@      loop 1
//@        invariant
//@          forall|i: int| 0 <= i < deleted@.len() ==> !protected(#[trigger] deleted@[i])
//@          forall|id: RemoteId| protected(id) <==> (id == *local || delegates@.contains(id))
//@          vstd::laws_cmp::obeys_cmp_spec::<RemoteId>()
//@          <RemoteId as vstd::std_specs::cmp::PartialEqSpec>::obeys_eq_spec()
//@          forall|a: RemoteId, b: RemoteId| #[trigger] vstd::std_specs::cmp::PartialEqSpec::eq_spec(&a, &b) <==> a == b
//@      loop 2
//@        invariant
//@          !protected(id)
//@          __vx_it2.ns == id
//@  impl WriteStorage for Storage
//@    add
//@      open spec fn node_key(&self) -> RemoteId { self.info.key }
//@    fn clean
//@      desugar_try
//@      body_sub repo\.remote_ids\(\)\?\.collect::<Result<_, _>>\(\)\? => vx_collect_remotes(repo.remote_ids()?)?
//@end
/// ghost: the local node's key (ties the `remove` sink to the node identity)
pub uninterp spec fn local_key() -> RemoteId;
impl Storage {
    /// ASSUMED: repository(rid) opens the repository named `rid` or fails.
    #[verifier::external_body]
    pub fn repository(&self, rid: RepoId) -> (r: Result<Repository, RepositoryError>) ensures r is Ok ==> r->Ok_0.id == rid { unimplemented!() }
}

//@canary
} // verus!
fn main() {}
