// Unit `pktline` (C13): the git request header reader of the fetch responder never panics on peer input.
// Real code: mod pktline of crates/radicle-node/src/worker/upload_pack.rs.
use vstd::prelude::*;
use std::io::Read;
//@include _prelude.rs
//@alloc_budget

verus! {
//@include _panic.rs
//@include _io.rs

// ---- environment ------------------------------------------------------------------------------------
pub mod io { pub use std::io::{Read, Error, ErrorKind, Result}; }
#[derive(Clone, Copy, PartialEq, Eq, Debug)] pub struct RepoId(pub [u8; 20]);
pub mod str {
    pub struct Utf8Error;
    /// std::str::from_utf8: result arbitrary (any bytes may or may not be UTF-8)
    #[verifier::external_body]
    pub fn from_utf8(b: &[u8]) -> Result<&str, Utf8Error> { unimplemented!() }
}
/// stand-in for `usize::from_str_radix(s, 16)`: ANY value may come back (over-approximation)
#[verifier::external_body]
pub fn vx_usize_from_str_radix(s: &str, radix: u32) -> Result<usize, std::num::ParseIntError> { unimplemented!() }
#[verifier::external_type_specification]
#[verifier::external_body]
pub struct ExParseIntError(std::num::ParseIntError);
/// stand-in for the error-mapping closures `|e| io::Error::new(InvalidInput, e.to_string())`
#[verifier::external_body]
pub fn vx_invalid_input<E>(e: E) -> std::io::Error { unimplemented!() }
pub struct GitRequest { pub repo: RepoId }
impl GitRequest {
    /// GitRequest::parse is string-level code (str::strip_prefix/split_terminator/parse): result arbitrary here.
    #[verifier::external_body]
    pub fn parse(input: &[u8]) -> Option<GitRequest> { unimplemented!() }
}

//@extract crates/radicle-node/src/worker/upload_pack.rs
//@  mod pktline
//@    item const HEADER_LEN
//@    item struct Reader
//@    impl <'a, R: io::Read> Reader<'a, R>
//@      fn new
//@      fn read_request_pktline
//@        desugar_try
//@        body_sub Vec::from\(&pktline\[\.\.length\]\) => vx_vec_from(&pktline, length)
//@      fn read_pktline
//@        desugar_try
//@        body_sub \.map_err\(\|e\| io::Error::new\(io::ErrorKind::InvalidInput, e\.to_string\(\)\)\) => .map_err(vx_invalid_input)
//@        body_sub usize::from_str_radix\( => vx_usize_from_str_radix(
//@        ret r
//@        requires
//@          old(buf)@.len() >= HEADER_LEN
//@        ensures
//@          r is Ok ==> HEADER_LEN <= r->Ok_0 <= old(buf)@.len()
//@          final(buf)@.len() == old(buf)@.len()
//@    impl <R: io::Read> io::Read for Reader<'_, R>
//@      fn read
//@        attr #[verifier::external_body]
//@    fn git_request
//@      desugar_try
//@end
impl<'a, R: std::io::Read> ReadSpecImpl for Reader<'a, R> {
    closed spec fn rem(&self) -> Seq<u8> { (*self.stream).rem() }
    closed spec fn consumed(&self) -> nat { (*self.stream).consumed() }
}
#[verifier::external_body]
pub fn vx_vec_from(b: &[u8; 1024], n: usize) -> (v: Vec<u8>) requires n <= 1024 { Vec::from(&b[..n]) }

//@canary
} // verus!
fn main() {}
