// Unit `limiter` (C17): RateLimiter::limit bypass rules (real code) + the window lemma over the per-call
// contract that the Kani harnesses (kx/harness/limiter.rs) establish bit-precisely for TokenBucket.
use vstd::prelude::*;
use std::collections::{HashMap, HashSet};
//@include _prelude.rs

verus! {
//@include _panic.rs

// ---- environment (declarations only) -----------------------------------------------------------
#[derive(Clone, Copy, PartialEq, Eq, Hash)]
pub struct NodeId(pub [u8; 32]);
#[derive(Clone, Copy, PartialEq, Eq, Hash)]
pub struct IpAddr(pub [u8; 16]);
#[derive(Clone, PartialEq, Eq, Hash)]
pub enum HostName { Ip(IpAddr), Dns(String), Tor([u8; 35]) }
#[derive(Clone, Copy)]
pub struct LocalTime { pub ms: u64 }
pub mod address {
    use vstd::prelude::*;
    pub uninterp spec fn routable(ip: crate::IpAddr) -> bool;
    /// ASSUMED (radicle::node::address): `is_routable` is a pure predicate on the address.
    #[verifier::external_body]
    pub fn is_routable(ip: &crate::IpAddr) -> (r: bool) ensures r == routable(*ip) { unimplemented!() }
}
/// opaque: TokenBucket is verified by Kani (bit-precise f64), not here
pub struct TokenBucket { pub opaque: u8 }
/// stand-in for `self.buckets.entry(addr).or_insert_with(|| TokenBucket::new(..)).take(now)`:
/// HashMap's entry API and the closure are outside vstd; the call site is renamed. Its result is arbitrary
/// (that is where limiting happens); what matters for C17 is that it is NOT reached for bypassed / LAN peers.
#[verifier::external_body]
pub fn vx_bucket_take<T: AsTokens>(buckets: &mut HashMap<HostName, TokenBucket>, addr: HostName, tokens: &T, now: LocalTime) -> (r: bool)
{ unimplemented!() }

//@extract crates/radicle-node/src/service/limiter.rs
//@  item struct RateLimiter
//@    derive
//@  item trait AsTokens
//@  impl RateLimiter
//@    fn limit
//@      ret r
//@      body_sub self\s*\.buckets\s*\.entry\(addr\)\s*\.or_insert_with\(\|\| TokenBucket::new\(tokens\.capacity\(\), tokens\.rate\(\), now\)\)\s*\.take\(now\) => vx_bucket_take(&mut self.buckets, addr, tokens, now)
//@      ensures
//@        vstd::std_specs::hash::obeys_key_model::<NodeId>() && vstd::std_specs::hash::builds_valid_hashers::<std::collections::hash_map::RandomState>() && nid is Some && old(self).bypass@.contains(*nid->Some_0) ==> r == false && final(self).buckets == old(self).buckets
//@        addr is Ip && !address::routable(addr->Ip_0) && !(nid is Some && old(self).bypass@.contains(*nid->Some_0)) ==> r == false && final(self).buckets == old(self).buckets
//@        final(self).bypass == old(self).bypass
//@end

// ---- window lemma (idealised arithmetic: tokens in exact rationals scaled to integers) ------------
// Per-call contract (established for the real f64 code by Kani, see evidence): a step at which `secs` whole
// seconds of forward clock progress are observed changes the token level from t to
//     t' = min(cap, t + secs*rate) - (1 if admitted else 0),  admitted ==> min(cap, t + secs*rate) >= 1.
// Units: micro-tokens (all quantities scaled by a common denominator so that they are integers).
pub struct Ev { pub secs: nat, pub admitted: bool }
pub open spec fn min(a: int, b: int) -> int { if a < b { a } else { b } }
pub open spec fn step(t: int, e: Ev, cap: int, rate: int, unit: int) -> int {
    let refilled = min(cap, t + e.secs * rate);
    if e.admitted { refilled - unit } else { refilled }
}
pub open spec fn ok_step(t: int, e: Ev, cap: int, rate: int, unit: int) -> bool {
    e.admitted ==> min(cap, t + e.secs * rate) >= unit
}
pub open spec fn run(t0: int, h: Seq<Ev>, cap: int, rate: int, unit: int) -> int
    decreases h.len()
{ if h.len() == 0 { t0 } else { step(run(t0, h.drop_last(), cap, rate, unit), h.last(), cap, rate, unit) } }
pub open spec fn run_ok(t0: int, h: Seq<Ev>, cap: int, rate: int, unit: int) -> bool
    decreases h.len()
{ h.len() == 0 || (run_ok(t0, h.drop_last(), cap, rate, unit) && ok_step(run(t0, h.drop_last(), cap, rate, unit), h.last(), cap, rate, unit)) }
pub open spec fn admitted(h: Seq<Ev>) -> nat decreases h.len() { if h.len() == 0 { 0 } else { admitted(h.drop_last()) + if h.last().admitted { 1nat } else { 0nat } } }
pub open spec fn elapsed(h: Seq<Ev>) -> nat decreases h.len() { if h.len() == 0 { 0 } else { elapsed(h.drop_last()) + h.last().secs } }

/// From the statement: in any window (any run `h` of requests starting from any reachable level t0 <= cap),
/// admitted * unit <= t0 + rate * (whole seconds observed) <= cap + rate * window.
pub proof fn lemma_window_bound(t0: int, h: Seq<Ev>, cap: int, rate: int, unit: int)
    requires 0 <= t0 <= cap, rate >= 0, unit > 0, run_ok(t0, h, cap, rate, unit)
    ensures
        0 <= run(t0, h, cap, rate, unit) <= cap,
        admitted(h) * unit + run(t0, h, cap, rate, unit) <= t0 + rate * elapsed(h),
        admitted(h) * unit <= cap + rate * elapsed(h),
    decreases h.len()
{
    if h.len() > 0 {
        let p = h.drop_last();
        lemma_window_bound(t0, p, cap, rate, unit);
        let t = run(t0, p, cap, rate, unit);
        let e = h.last();
        let sr = e.secs * rate;
        assert(sr >= 0) by (nonlinear_arith) requires sr == e.secs * rate, e.secs >= 0, rate >= 0;
        assert(rate * elapsed(h) == rate * elapsed(p) + sr) by (nonlinear_arith) requires elapsed(h) == elapsed(p) + e.secs, sr == e.secs * rate;
        let refilled = min(cap, t + sr);
        assert(refilled <= t + sr && refilled <= cap);
        if e.admitted {
            assert(admitted(h) == admitted(p) + 1);
            assert(admitted(h) * unit == admitted(p) * unit + unit) by (nonlinear_arith) requires admitted(h) == admitted(p) + 1;
            assert(run(t0, h, cap, rate, unit) == refilled - unit);
        } else {
            assert(admitted(h) == admitted(p));
            assert(run(t0, h, cap, rate, unit) == refilled);
            assert(admitted(h) * unit == admitted(p) * unit) by (nonlinear_arith) requires admitted(h) == admitted(p);
        }
    } else {
        assert(admitted(h) * unit == 0) by (nonlinear_arith) requires admitted(h) == 0;
        assert(rate * elapsed(h) == 0) by (nonlinear_arith) requires elapsed(h) == 0;
    }
}

//@canary
} // verus!
fn main() {}
