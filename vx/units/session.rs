// Unit `session` (C16, C13): per-peer fetch bookkeeping. Real code: impl Session in
// crates/radicle-node/src/service/session.rs, State/PingState from crates/radicle/src/node.rs.
use vstd::prelude::*;
use std::collections::{HashSet, VecDeque};
//@include _prelude.rs

verus! {
//@include _panic.rs

// ---- environment -----------------------------------------------------------------------------------
#[derive(Clone, Copy, PartialEq, Eq, Hash, Debug)] pub struct NodeId(pub [u8; 32]);
#[derive(Clone, Copy, PartialEq, Eq, Hash, Debug)] pub struct RepoId(pub [u8; 20]);
#[derive(Clone, Copy, PartialEq, Eq, Debug, Default)] pub struct LocalTime { pub ms: u64 }
#[derive(Clone, Copy, PartialEq, Eq, Debug)] pub struct LocalDuration { pub ms: u64 }
#[derive(Clone, Debug)] pub struct Address;
#[derive(Clone, Debug, PartialEq, Eq)] pub enum Link { Outbound, Inbound }
#[derive(Clone, Debug)] pub struct Rng;
#[derive(Clone, Debug, PartialEq, Eq)] pub struct RefsAt;
#[derive(Clone, Debug)] pub struct Limits { pub fetch_concurrency: usize }
pub mod message { #[derive(Clone, Debug)] pub struct Subscribe; }
pub mod time { #[derive(Clone, Copy, Debug)] pub struct Duration; }
pub mod chan { #[derive(Clone, Debug)] pub struct Sender<T>(pub T); }
#[derive(Clone, Debug)] pub struct FetchResult;
/// ASSUMED (std/derive): hashing and equality of the id types are lawful, so HashSet is a mathematical set.
#[verifier::external_body]
pub proof fn ids_lawful()
    ensures vstd::std_specs::hash::obeys_key_model::<RepoId>(),
        vstd::std_specs::hash::builds_valid_hashers::<std::collections::hash_map::RandomState>(),
{}
/// ASSUMED stand-in for `self.queue.contains(&fetch)` (VecDeque::contains over the hand-written PartialEq of QueuedFetch): result arbitrary
#[verifier::external_body]
pub fn vx_queue_contains(q: &VecDeque<QueuedFetch>, f: &QueuedFetch) -> bool { unimplemented!() }
/// ASSUMED: NodeId equality (derived on a byte array) is structural
#[verifier::external_body]
pub fn vx_node_eq(a: &NodeId, b: &NodeId) -> (r: bool) ensures r == (*a == *b) { unimplemented!() }

//@extract crates/radicle/src/node.rs
//@  item enum PingState
//@    derive Debug, Copy, Clone, Default, PartialEq, Eq
//@  item enum State
//@    derive Debug, Clone
//@  impl State
//@    fn is_connected
//@      ret r
//@      ensures
//@        r == (self is Connected)
//@end

//@extract crates/radicle-node/src/service/session.rs
//@  item const MAX_FETCH_QUEUE_SIZE
//@  item struct QueuedFetch
//@    derive Debug, Clone
//@  item enum QueueError
//@    derive Debug, Clone
//@  item struct Session
//@    derive Debug, Clone
//@  impl Session
//@    add
//@      /// repositories being fetched from this peer (empty unless connected)
//@      pub open spec fn fetching_set(self) -> Set<RepoId> {
//@          match self.state { State::Connected { fetching, .. } => fetching@, _ => Set::empty() }
//@      }
//@      /// C16: per-peer concurrency limit and queue capacity
//@      pub open spec fn within_limits(self) -> bool {
//@          self.fetching_set().len() <= self.limits.fetch_concurrency && self.queue@.len() <= MAX_FETCH_QUEUE_SIZE
//@      }
//@    fn is_connected
//@      ret r
//@      ensures
//@        r == (self.state is Connected)
//@    fn is_disconnected
//@      ret r
//@      ensures
//@        r == (self.state is Disconnected)
//@    fn is_initial
//@      ret r
//@      ensures
//@        r == (self.state is Initial)
//@    fn is_at_capacity
//@      ret r
//@      ensures
//@        r == (self.state is Connected && self.fetching_set().len() >= self.limits.fetch_concurrency)
//@      head
//@        proof { ids_lawful(); }
//@    fn is_fetching
//@      ret r
//@      ensures
//@        r == self.fetching_set().contains(*rid)
//@      head
//@        proof { ids_lawful(); }
//@    fn queue_fetch
//@      ret r
//@      body_sub assert_eq!\(fetch\.from, self\.id\); => vx_assert(vx_node_eq(&fetch.from, &self.id));
//@      body_sub self\.queue\.contains\(&fetch\) => vx_queue_contains(&self.queue, &fetch)
//@      requires
//@        fetch.from == old(self).id                                              //[C13]
//@        old(self).queue@.len() <= MAX_FETCH_QUEUE_SIZE
//@      ensures
//@        final(self).queue@.len() <= MAX_FETCH_QUEUE_SIZE
//@        r is Ok ==> final(self).queue@ == old(self).queue@.push(fetch)
//@        r is Err ==> final(self).queue@ == old(self).queue@
//@        final(self).state == old(self).state
//@    fn dequeue_fetch
//@      ret r
//@      ensures
//@        final(self).queue@.len() <= old(self).queue@.len()
//@        final(self).state == old(self).state
//@    fn fetching
//@      requires
//@        old(self).state is Connected                                            //[C13]
//@        !old(self).fetching_set().contains(rid)                                 //[C13]
//@        old(self).fetching_set().len() < old(self).limits.fetch_concurrency
//@        old(self).fetching_set().finite()
//@      ensures
//@        final(self).fetching_set() == old(self).fetching_set().insert(rid)
//@        final(self).fetching_set().len() <= final(self).limits.fetch_concurrency
//@        final(self).queue == old(self).queue && final(self).limits == old(self).limits && final(self).id == old(self).id
//@      head
//@        proof { ids_lawful(); }
//@    fn fetched
//@      ensures
//@        final(self).fetching_set() == old(self).fetching_set().remove(rid)
//@        final(self).queue == old(self).queue && final(self).limits == old(self).limits && final(self).id == old(self).id
//@      head
//@        proof { ids_lawful(); }
//@    fn to_attempted
//@      requires
//@        old(self).state is Initial                                              //[C13]
//@        old(self).attempts < usize::MAX
//@    fn to_connected
//@      ensures
//@        final(self).state is Connected
//@        final(self).fetching_set() == Set::<RepoId>::empty()
//@        final(self).queue == old(self).queue
//@      head
//@        proof { ids_lawful(); }
//@    fn to_disconnected
//@      ensures
//@        final(self).fetching_set() == Set::<RepoId>::empty()
//@    fn to_initial
//@      requires
//@        old(self).state is Disconnected                                         //[C13]
//@end

//@canary
} // verus!
fn main() {}
