// Unit `service_relay` (C11): who a refs announcement is handed to when the node relays it or announces its own.
// Real code: Service::relay, Service::announce_refs (crates/radicle-node/src/service.rs) -- including the
// visibility tests written as closures inside iterator adapters -- and Outbox::{relay, broadcast, announce}
// (crates/radicle-node/src/service/io.rs). The closures get their contracts in place (rewrite log says where);
// std's Iterator::{filter, map} are represented by a stand-in iterator type whose contracts are the adapters'
// defining properties (filter keeps only elements the predicate accepted, map yields images).
use vstd::prelude::*;
use std::collections::{HashMap, VecDeque};
use std::marker::PhantomData;
//@include _prelude.rs

verus! {
//@include _panic.rs

// ---- environment (declarations only) ------------------------------------------------------------------
#[derive(Clone, Copy, PartialEq, Eq, Hash, Debug)] pub struct NodeId(pub [u8; 32]);
#[derive(Clone, Copy, PartialEq, Eq, Hash, Debug)] pub struct RepoId(pub [u8; 20]);
#[derive(Clone, Copy, PartialEq, Eq, Debug)] pub struct Did(pub NodeId);
impl From<NodeId> for Did { fn from(n: NodeId) -> (r: Did) ensures r == Did(n) { Did(n) } }
impl vstd::std_specs::convert::FromSpecImpl<NodeId> for Did { open spec fn obeys_from_spec() -> bool { true } open spec fn from_spec(n: NodeId) -> Did { Did(n) } }
impl<'a> From<&'a NodeId> for Did { fn from(n: &'a NodeId) -> (r: Did) ensures r == Did(*n) { Did(*n) } }
impl<'a> vstd::std_specs::convert::FromSpecImpl<&'a NodeId> for Did { open spec fn obeys_from_spec() -> bool { true } open spec fn from_spec(n: &'a NodeId) -> Did { Did(*n) } }
/// ASSUMED (derive(PartialEq) on byte-array newtypes): structural equality.
#[verifier::external_body]
pub proof fn ids_lawful()
    ensures <NodeId as vstd::std_specs::cmp::PartialEqSpec>::obeys_eq_spec(),
        forall|a: NodeId, b: NodeId| #[trigger] vstd::std_specs::cmp::PartialEqSpec::eq_spec(&a, &b) <==> a == b,
{}
pub mod crypto { #[derive(Clone, Copy, PartialEq, Eq, Debug)] pub struct Signature(pub [u8; 64]); pub mod signature { pub trait Signer<T> {} } }
pub mod wire { pub type Size = u16; #[verifier::external_body] pub fn serialize(m: &crate::AnnouncementMessage) -> Vec<u8> { unimplemented!() } }
impl NodeId { #[verifier::external_body] pub fn verify(&self, msg: Vec<u8>, sig: &crypto::Signature) -> Result<(), ()> { unimplemented!() } }
#[derive(Clone, Copy, PartialEq, Eq, PartialOrd, Ord, Debug)] pub struct Timestamp(pub u64);
#[derive(Clone, Debug, PartialEq, Eq)] pub struct Filter;
impl Filter { #[verifier::external_body] pub fn contains(&self, rid: &RepoId) -> bool { unimplemented!() } }
#[derive(Clone, Debug, PartialEq, Eq)] pub struct Alias;
#[derive(Clone, Debug, PartialEq, Eq)] pub struct Address;
#[derive(Clone, Debug, PartialEq, Eq)] pub struct UserAgent;
pub mod git { #[derive(Clone, Copy, Debug, PartialEq, Eq)] pub struct Oid(pub [u8; 20]); }
#[derive(Clone, Copy, Debug, PartialEq, Eq)] pub struct RefsAt { pub remote: NodeId, pub at: git::Oid }
pub mod node { #[derive(Clone, Copy, Debug, PartialEq, Eq)] pub struct Features(pub u64); }
#[derive(Clone, Debug, PartialEq, Eq)] pub struct BoundedVec<T, const N: usize> { pub v: Vec<T> }
#[derive(Clone, Debug, PartialEq, Eq)] pub struct ZeroBytes(pub u16);

/// the repository's identity document makes it visible to this peer (definition proved in unit `identity`);
/// false when the repository is not in storage
pub uninterp spec fn visible(rid: RepoId, did: Did) -> bool;
pub uninterp spec fn local_id() -> NodeId;

pub struct Doc { pub rid: RepoId }
impl Doc { #[verifier::external_body] pub fn is_visible_to(&self, did: &Did) -> (r: bool) ensures r == visible(self.rid, *did) { unimplemented!() } }
pub struct RepositoryError;
pub trait ReadStorage {
    /// ASSUMED: `get(rid)` returns the identity document of `rid` if we have the repository
    fn get(&self, rid: RepoId) -> (r: Result<Option<Doc>, RepositoryError>) ensures r is Ok && r->Ok_0 is Some ==> r->Ok_0->Some_0.rid == rid;
}
pub trait Store {}
pub struct Device<G>(pub G);
pub struct Session { pub id: NodeId, pub subscribe: Option<Subscribe> }

// ---- std iterator adapters, by contract ----------------------------------------------------------------------
/// Stand-in for `impl Iterator<Item = T>`: the (ghost) collection of items it may still yield.
#[verifier::external_body]
#[verifier::reject_recursive_types(T)]
pub struct VxIter<T> { _p: PhantomData<T> }
impl<T> VxIter<T> {
    pub uninterp spec fn has(self, x: T) -> bool;
    /// ASSUMED (Iterator::filter): yields only items of the underlying iterator for which the predicate returned true
    #[verifier::external_body]
    pub fn filter<F: Fn(&T) -> bool>(self, f: F) -> (r: VxIter<T>)
        requires forall|x: T| #[trigger] self.has(x) ==> f.requires((&x,))
        ensures forall|x: T| #[trigger] r.has(x) ==> self.has(x) && f.ensures((&x,), true)
    { unimplemented!() }
    /// ASSUMED (Iterator::map): yields only images of items of the underlying iterator
    #[verifier::external_body]
    pub fn map<U, F: Fn(T) -> U>(self, f: F) -> (r: VxIter<U>)
        requires forall|x: T| #[trigger] self.has(x) ==> f.requires((x,))
        ensures forall|y: U| #[trigger] r.has(y) ==> exists|x: T| self.has(x) && f.ensures((x,), y)
    { unimplemented!() }
    /// ASSUMED (IntoIterator for an iterator): identity
    #[verifier::external_body]
    pub fn into_iter(self) -> (r: VxIter<T>) ensures r == self { unimplemented!() }
    /// ASSUMED (Iterator::next): yields one of the remaining items; the remaining items only shrink
    #[verifier::external_body]
    pub fn next(&mut self) -> (r: Option<T>)
        ensures r is Some ==> old(self).has(r->Some_0),
            forall|x: T| #[trigger] final(self).has(x) ==> old(self).has(x)
    { unimplemented!() }
}
pub assume_specification<T> [std::option::Option::<std::option::Option<T>>::flatten] (o: std::option::Option<std::option::Option<T>>) -> (r: std::option::Option<T>)
    ensures r == (match o { Some(Some(x)) => Some(x), _ => None::<T> });

pub struct Sessions;
impl Sessions {
    /// ASSUMED (Sessions = map keyed by node id): every entry's key is the id of the session stored under it
    #[verifier::external_body]
    pub fn connected<'a>(&'a self) -> (r: VxIter<(&'a NodeId, &'a Session)>)
        ensures forall|x: (&'a NodeId, &'a Session)| #[trigger] r.has(x) ==> x.1.id == *x.0
    { unimplemented!() }
}
pub mod gossip {
    pub type AnnouncementId = u64;
    pub struct Error;
    pub struct Store;
    impl Store { #[verifier::external_body] pub fn announced(&mut self, nid: &crate::NodeId, ann: &crate::Announcement) -> Result<Option<AnnouncementId>, Error> { unimplemented!() } }
}
pub mod seed { pub struct Error; pub struct Store;
    impl Store { #[verifier::external_body] pub fn synced(&mut self, rid: &crate::RepoId, nid: &crate::NodeId, at: crate::git::Oid, ts: crate::Timestamp) -> Result<bool, Error> { unimplemented!() } } }
pub struct Stores<D>(pub D);
impl<D> Stores<D> {
    #[verifier::external_body] pub fn gossip_mut(&mut self) -> &mut gossip::Store { unimplemented!() }
    #[verifier::external_body] pub fn seeds_mut(&mut self) -> &mut seed::Store { unimplemented!() }
}
pub struct Error;
pub enum Io { Write(NodeId, Vec<Message>) }
/// stand-in for `refs.iter().find(|r| r.remote == ann.node)`: result arbitrary
#[verifier::external_body]
pub fn vx_find_own<'a>(refs: &'a Vec<RefsAt>, node: &NodeId) -> Option<&'a RefsAt> { unimplemented!() }
/// ASSUMED (core): `<[T]>::contains(x)` is `iter().any(|e| e == x)`: membership when `==` is structural
pub assume_specification<T: PartialEq>[<[T]>::contains](s: &[T], x: &T) -> (r: bool)
    ensures (forall|a: T, b: T| #[trigger] vstd::std_specs::cmp::PartialEqSpec::eq_spec(&a, &b) == (a == b)) ==> r == s@.contains(*x);

//@extract crates/radicle-node/src/service/message.rs
//@  item const ADDRESS_LIMIT
//@  item const REF_REMOTE_LIMIT
//@  item const INVENTORY_LIMIT
//@  item struct Subscribe
//@  item struct NodeAnnouncement
//@  item struct RefsAnnouncement
//@  item struct InventoryAnnouncement
//@  item enum Info
//@  item enum AnnouncementMessage
//@    derive Clone, PartialEq, Eq, Debug
//@  item struct Announcement
//@    derive PartialEq, Eq, Debug
//@  impl Announcement
//@    drop POW_PARAMS, POW_SALT
//@    fn timestamp
//@  item enum Message
//@    derive PartialEq, Eq, Debug
//@  item struct Ping
//@  impl From<Announcement> for Message
//@    fn from
//@      ret r
//@      ensures
//@        r == Message::Announcement(ann)
//@end
impl AnnouncementMessage { #[verifier::external_body] pub fn timestamp(&self) -> Timestamp { unimplemented!() } }
impl vstd::std_specs::convert::FromSpecImpl<Announcement> for Message { open spec fn obeys_from_spec() -> bool { true } open spec fn from_spec(a: Announcement) -> Message { Message::Announcement(a) } }
/// ASSUMED (derive(Clone)): a clone equals the original
impl Clone for Announcement { #[verifier::external_body] fn clone(&self) -> (r: Self) ensures r == *self { unimplemented!() } }
impl Clone for Message { #[verifier::external_body] fn clone(&self) -> (r: Self) ensures r == *self { unimplemented!() } }

/// From the statement (C11): `msg` may be handed to `peer` -- a refs announcement only if the repository is visible to it
pub open spec fn may_send(msg: Message, peer: NodeId) -> bool {
    msg matches Message::Announcement(a) ==> (a.message matches AnnouncementMessage::Refs(r) ==> visible(r.rid, Did(peer)))
}

//@extract crates/radicle-node/src/service/io.rs
//@  item struct Outbox
//@    derive Default
//@  impl Outbox
//@    add
//@      /// SINK (C11): queues `msg` for the peer of `remote`.
//@      #[verifier::external_body]
//@      pub fn write(&mut self, remote: &Session, msg: Message)
//@          requires may_send(msg, remote.id)   //[C11]
//@      { unimplemented!() }
//@    fn broadcast
//@      attr #[verifier::exec_allows_no_decreases_clause]
//@      sig peers: impl IntoIterator<Item = &'a Session>, => peers: VxIter<&'a Session>,
//@      desugar_for
//@      requires
//@        into_ok::<_, Message>(msg)
//@        forall|p: &'a Session| #[trigger] peers.has(p) ==> may_send(into_v::<_, Message>(msg), p.id)
//@      loop 1
//@        invariant
//@          forall|p: &'a Session| #[trigger] __vx_it1.has(p) ==> may_send(msg, p.id)
//@    fn relay
//@      sig peers: impl IntoIterator<Item = &'a Session>\) => peers: VxIter<&'a Session>)
//@      requires
//@        forall|p: &'a Session| #[trigger] peers.has(p) ==> may_send(Message::Announcement(ann), p.id)
//@        # C10: a relayed announcement is never echoed back to the node that announced it
//@        forall|p: &'a Session| #[trigger] peers.has(p) ==> p.id != ann.node //[C10]
//@    fn announce
//@      attr #[verifier::exec_allows_no_decreases_clause]
//@      sig peers: impl Iterator<Item = &'a Session>, => peers: VxIter<&'a Session>,
//@      sig gossip: &mut impl gossip::Store, => gossip: &mut gossip::Store,
//@      desugar_for
//@      requires
//@        forall|p: &'a Session| #[trigger] peers.has(p) ==> may_send(Message::Announcement(ann), p.id)
//@      loop 1
//@        invariant
//@          forall|p: &'a Session| #[trigger] __vx_it1.has(p) ==> may_send(Message::Announcement(ann), p.id)
//@end
pub open spec fn into_ok<A: Into<B>, B>(a: A) -> bool { <A as vstd::std_specs::convert::IntoSpec<B>>::obeys_into_spec() }
pub open spec fn into_v<A: Into<B>, B>(a: A) -> B { vstd::std_specs::convert::IntoSpec::<B>::into_spec(a) }

//@extract crates/radicle-node/src/service.rs
//@  item struct Service
//@    fields signer, storage, db, sessions, relayed_by, outbox
//@  impl <D, S, G> Service<D, S, G> where D: Store, S: ReadStorage + 'static, G: crypto::signature::Signer<crypto::Signature>,
//@    add
//@      /// builds and signs the refs announcement for `rid` (storage, signer): ASSUMED to be about `rid`
//@      #[verifier::external_body]
//@      fn refs_announcement_for(&mut self, rid: RepoId, remotes: Vec<NodeId>) -> (r: Result<(Announcement, Vec<RefsAt>), Error>)
//@          ensures r is Ok ==> (r->Ok_0.0.message matches AnnouncementMessage::Refs(m) && m.rid == rid)
//@      { unimplemented!() }
//@    fn relay
//@      # closures: tuple-pattern parameters become a variable + `let` (Verus), and the visibility filter gets its contract in place
//@      body_sub (?s)\.filter\(\|\(id, _\)\| \{\s*relayed_by\s*\.map\(\|relayers\| !relayers\.contains\(id\)\) => .filter(|__vx_p0: &(&NodeId, &Session)| -> (b: bool) ensures b ==> !(relayed_by is Some && relayed_by->Some_0@.contains(*(*__vx_p0).0)) { let (id, _) = __vx_p0; relayed_by.map(|relayers: &Vec<NodeId>| -> (v: bool) ensures v == !relayers@.contains(**id) { !relayers.contains(id) })
//@      body_sub \.filter\(\|\(id, _\)\| \*\*id != announcer\) => .filter(|__vx_p1: &(&NodeId, &Session)| -> (b: bool) ensures b ==> *(*__vx_p1).0 != announcer { let (id, _) = __vx_p1; **id != announcer })
//@      body_sub \.filter\(\|\(id, _\)\| \{\s*if let Some\(rid\) = rid \{ => .filter(|__vx_p2: &(&NodeId, &Session)| -> (b: bool) ensures (rid is Some && b) ==> visible(rid->Some_0, Did(*(*__vx_p2).0)) { let (id, _) = __vx_p2; if let Some(rid) = rid {
//@      body_sub \.map\(\|doc\| doc\.is_visible_to\(&\(\*id\)\.into\(\)\)\) => .map(|doc: Doc| -> (v: bool) ensures v == visible(doc.rid, Did(**id)) { doc.is_visible_to(&(*id).into()) })
//@      body_sub \.map\(\|\(_, p\)\| p\); => .map(|__vx_p3: (&NodeId, &Session)| -> (s: &Session) ensures s == __vx_p3.1 { let (_, p) = __vx_p3; p });
//@      # C10: "a relayed announcement is never sent to a peer that delivered it to us"
//@      hint 1 self\.outbox\.relay\(ann, relay_to\);
//@        assert(forall|p: &Session| #[trigger] relay_to.has(p) ==> !(relayed_by is Some && relayed_by->Some_0@.contains(p.id)));
//@      head
//@        proof { ids_lawful(); }
//@    fn announce_refs
//@      desugar_try
//@      sig remotes: impl IntoIterator<Item = NodeId>, => remotes: Vec<NodeId>,
//@      body_sub \.map\(\|\(_, p\)\| p\); => .map(|__vx_p0: (&NodeId, &Session)| -> (s: &Session) ensures s == __vx_p0.1 { let (_, p) = __vx_p0; p });
//@      body_sub refs\.iter\(\)\.find\(\|r\| r\.remote == ann\.node\) => vx_find_own(&refs, &ann.node)
//@      body_sub (?s)peers\.filter\(\|p\| \{ => peers.filter(|p: &&Session| -> (b: bool) ensures b ==> visible(doc.rid, Did(p.id)) {
//@      requires
//@        # the caller passes the identity document of `rid` (call sites: fetched, announce_own_refs -- not in this unit)
//@        doc.rid == rid
//@end

//@canary
} // verus!
fn main() {}
