// Unit `refs_verify` (C20, C01): a signed-refs value is accepted only if the signature is by the claimed key
// over the canonical text of exactly the refs that are accepted, and the signed identity root names this repository.
// Real code: SignedRefs::<Unverified>::{verify, verified} (crates/radicle/src/storage/refs.rs).
use vstd::prelude::*;
use std::marker::PhantomData;
//@include _prelude.rs

verus! {
//@include _panic.rs

// ---- environment -----------------------------------------------------------------------------------------
#[derive(Clone, Copy, PartialEq, Eq, Debug)] pub struct Oid(pub [u8; 20]);
#[derive(Clone, Copy, PartialEq, Eq, Debug)] pub struct RepoId(pub [u8; 20]);
impl From<Oid> for RepoId { fn from(o: Oid) -> (r: RepoId) ensures r == RepoId(o.0) { RepoId(o.0) } }
impl vstd::std_specs::convert::FromSpecImpl<Oid> for RepoId { open spec fn obeys_from_spec() -> bool { true } open spec fn from_spec(o: Oid) -> RepoId { RepoId(o.0) } }
/// ASSUMED (derive(PartialEq) on a byte-array newtype): structural equality
impl vstd::std_specs::cmp::PartialEqSpecImpl for RepoId { open spec fn obeys_eq_spec() -> bool { true } open spec fn eq_spec(&self, o: &Self) -> bool { *self == *o } }
#[derive(Clone, Copy, PartialEq, Eq, Debug)] pub struct Signature(pub [u8; 64]);
pub mod crypto { #[derive(Debug)] pub struct Error; pub mod signature { pub struct Error; } }
pub mod canonical { pub struct Error; }
pub mod git { pub struct RefString; pub struct RefError; }
pub mod git2 { pub struct Error; }
pub mod git_ext { pub struct Error; }
/// ed25519 verification, uninterpreted
pub uninterp spec fn ed_ok(key: PublicKey, msg: Seq<u8>, sig: Signature) -> bool;
#[derive(Clone, Copy, PartialEq, Eq, Debug)] pub struct PublicKey(pub [u8; 32]);
impl PublicKey {
    /// ASSUMED (ed25519): verify succeeds exactly when the signature is valid for this key over `msg`
    #[verifier::external_body]
    pub fn verify(&self, msg: Vec<u8>, sig: &Signature) -> (r: Result<(), crypto::Error>) ensures r is Ok <==> ed_ok(*self, msg@, *sig) { unimplemented!() }
}
pub struct RefName;
pub struct IdentityRootName;
pub const IDENTITY_ROOT: IdentityRootName = IdentityRootName;
#[derive(Clone, Debug)] pub struct Refs { pub opaque: u64 }
impl Refs {
    /// the canonical text of a set of refs (C20's first sentence, the text round-trip, is NOT decided here)
    pub uninterp spec fn canon(self) -> Seq<u8>;
    pub uninterp spec fn id_root(self) -> Option<Oid>;
    #[verifier::external_body] pub fn canonical(&self) -> (r: Vec<u8>) ensures r@ == self.canon() { unimplemented!() }
    /// lookup of `refs/rad/root` (IDENTITY_ROOT) in the signed refs
    #[verifier::external_body] pub fn get(&self, name: &IdentityRootName) -> (r: Option<Oid>) ensures r == self.id_root() { unimplemented!() }
}
pub struct DocAt { pub blob: Oid }
pub struct DocError;
pub trait ReadRepository {
    spec fn rid(&self) -> RepoId;
    /// ghost: the blob id of the identity document found at commit `at` (None if it cannot be loaded)
    spec fn doc_blob_at(&self, at: Oid) -> Option<Oid>;
    fn id(&self) -> (r: RepoId) ensures r == self.rid();
    /// ASSUMED: loads the identity document stored at the given commit
    fn identity_doc_at(&self, at: Oid) -> (r: Result<DocAt, DocError>)
        ensures r is Ok ==> self.doc_blob_at(at) == Some(r->Ok_0.blob);
}
pub struct Unverified; pub struct Verified;

//@extract crates/radicle/src/storage/refs.rs
//@  item enum Error
//@    derive
//@    thiserror_from
//@  item struct SignedRefs
//@    derive
//@  impl SignedRefs<Unverified>
//@    add
//@      /// C20/C01, from the statement: what acceptance of a signed-refs value means in repository `repo`
//@      pub open spec fn accepted_in<R: ReadRepository>(self, repo: &R) -> bool {
//@          &&& ed_ok(self.id, self.refs.canon(), self.signature)
//@          &&& (self.refs.id_root() matches Some(root) ==> repo.doc_blob_at(root) matches Some(blob) && RepoId(blob.0) == repo.rid())
//@      }
//@    fn verify
//@      ret r
//@      body_sub (?s)log::debug!\(.*?\);\n => 
//@      ensures
//@        r is Ok ==> self.accepted_in(repo)
//@    fn verified
//@      ret r
//@      ensures
//@        # the refs that are accepted are exactly the refs that were signed, by the claimed key
//@        r is Ok ==> self.accepted_in(repo) && r->Ok_0.refs == self.refs && r->Ok_0.id == self.id && r->Ok_0.signature == self.signature
//@end

//@canary
} // verus!
fn main() {}
