// Unit `fetch_stage` (C01): the reference updates prepared for the data stage of a fetch make every fetched namespace
// equal to its owner's signed refs: each signed ref gets a direct update to its signed target, every other existing
// ref of THAT namespace outside `refs/rad` gets a prune, and nothing else is touched.
// Real code: <DataRefs as ProtocolStage>::prepare_updates (crates/radicle-fetch/src/stage.rs), Update / Policy
// (crates/radicle-fetch/src/git/refs/update.rs).
use vstd::prelude::*;
use std::collections::{BTreeMap, HashSet};
use std::marker::PhantomData;
//@include _prelude.rs

verus! {
//@include _panic.rs

// ---- environment (declarations only) ------------------------------------------------------------------
#[derive(Clone, Copy, PartialEq, Eq, PartialOrd, Ord, Hash, Debug)] pub struct PublicKey(pub [u8; 32]);
#[derive(Clone, Copy, PartialEq, Eq, Debug)] pub struct Oid(pub [u8; 20]);
#[derive(Clone, Copy, PartialEq, Eq, PartialOrd, Ord, Hash, Debug)] pub struct RefString { pub id: u64 }
/// `refs/namespaces/<ns>/<name>` (git-ref-format's Namespaced): the pair it is built from
#[derive(Clone, PartialEq, Eq, Hash, Debug)] pub struct Namespaced<'a> { pub ns: PublicKey, pub name: RefString, pub p: PhantomData<&'a u8> }
#[derive(Clone, Debug)] pub struct Qualified<'a> { pub name: RefString, pub p: PhantomData<&'a u8> }
#[derive(Clone, Debug)] pub enum Either<L, R> { Left(L), Right(R) }
pub mod either { pub use crate::Either::{Left, Right}; }
pub open spec fn nsname(ns: PublicKey, name: RefString) -> Namespaced<'static> { Namespaced { ns, name, p: PhantomData } }
/// ASSUMED (derive(PartialEq, Eq, Hash) on the environment's name types): structural equality, lawful hashing;
/// Clone of a name is the name.
#[verifier::external_body]
pub proof fn names_lawful()
    ensures
        vstd::std_specs::hash::obeys_key_model::<Namespaced<'static>>(),
        vstd::std_specs::hash::builds_valid_hashers::<std::collections::hash_map::RandomState>(),
{}
#[verifier::external_body] pub fn vx_clone_name<'a>(n: &Namespaced<'a>) -> (r: Namespaced<'a>) ensures r == *n { unimplemented!() }
/// stand-in for `Qualified::from_refstr(name).and_then(|q| ReceivedRefname::remote(*remote, q).to_namespaced()).expect(..)`
/// and for `Qualified::from_refstr(name).expect(..).with_namespace(Component::from(remote))`:
/// ASSUMED to build `refs/namespaces/<remote>/<name>` (a non-qualified name panics: not part of this property)
#[verifier::external_body] pub fn vx_tracking<'a>(remote: &PublicKey, name: &RefString) -> (r: Namespaced<'a>) ensures r.ns == *remote && r.name == *name { unimplemented!() }
#[verifier::external_body] pub fn vx_namespaced<'a>(remote: &PublicKey, name: RefString) -> (r: Namespaced<'a>) ensures r.ns == *remote && r.name == name { unimplemented!() }
/// ghost: the name lies under `refs/rad`
pub uninterp spec fn is_rad(name: RefString) -> bool;
#[verifier::external_body] pub fn vx_starts_with_rad(name: &RefString) -> (r: bool) ensures r == is_rad(*name) { unimplemented!() }

/// the verified signed refs of one remote: an ordered list of (name, target) without duplicate names
pub struct SignedRefsAt { pub at: Oid, pub opaque: u64 }
impl SignedRefsAt {
    pub uninterp spec fn seq(&self) -> Seq<(RefString, Oid)>;
    pub open spec fn signs(&self, n: RefString) -> bool { exists|i: int| 0 <= i < self.seq().len() && #[trigger] self.seq()[i].0 == n }
    #[verifier::external_body] pub fn vx_len(&self) -> (r: usize) ensures r == self.seq().len() { unimplemented!() }
    pub fn iter(&self) -> (r: SignedIter<'_>) ensures r.s == self, r.k@ == 0 { SignedIter { s: self, k: Ghost(0) } }
}
pub struct SignedIter<'a> { pub s: &'a SignedRefsAt, pub k: Ghost<int> }
impl<'a> SignedIter<'a> {
    /// ASSUMED (BTreeMap::iter through the Deref chain of SignedRefsAt): every signed ref once, in order
    #[verifier::external_body]
    pub fn next(&mut self) -> (r: Option<(&'a RefString, &'a Oid)>)
        ensures final(self).s == old(self).s,
            old(self).k@ < old(self).s.seq().len() ==> r is Some && final(self).k@ == old(self).k@ + 1 && *r->Some_0.0 == old(self).s.seq()[old(self).k@].0 && *r->Some_0.1 == old(self).s.seq()[old(self).k@].1,
            old(self).k@ >= old(self).s.seq().len() ==> r is None && final(self).k@ == old(self).k@,
    { unimplemented!() }
}
/// `sigrefs::RemoteRefs` (BTreeMap<PublicKey, SignedRefsAt>): the fetched remotes in iteration order
pub struct RemoteRefs { pub opaque: u64 }
impl RemoteRefs {
    pub uninterp spec fn keys(&self) -> Seq<PublicKey>;
    pub uninterp spec fn refs_of(&self, i: int) -> SignedRefsAt;
    pub fn vx_iter(&self) -> (r: RemotesIter<'_>) ensures r.m == self, r.k@ == 0 { RemotesIter { m: self, k: Ghost(0) } }
}
pub struct RemotesIter<'a> { pub m: &'a RemoteRefs, pub k: Ghost<int> }
impl<'a> RemotesIter<'a> {
    #[verifier::external_body]
    pub fn next(&mut self) -> (r: Option<(&'a PublicKey, &'a SignedRefsAt)>)
        ensures final(self).m == old(self).m,
            old(self).k@ < old(self).m.keys().len() ==> r is Some && final(self).k@ == old(self).k@ + 1 && *r->Some_0.0 == old(self).m.keys()[old(self).k@] && *r->Some_0.1 == old(self).m.refs_of(old(self).k@),
            old(self).k@ >= old(self).m.keys().len() ==> r is None && final(self).k@ == old(self).k@,
    { unimplemented!() }
}
pub mod error { pub struct Prepare; }
/// the local repository: what exists under a remote's namespace before the update
pub struct Repository { pub opaque: u64 }
impl Repository {
    pub uninterp spec fn existing(&self, ns: PublicKey) -> Seq<(RefString, Oid)>;
    /// ASSUMED (Repository::references_of): the references found under `refs/namespaces/<remote>`, with their targets
    #[verifier::external_body]
    pub fn references_of(&self, remote: &PublicKey) -> (r: Result<ExistingIter<'_>, error::Prepare>)
        ensures r is Ok ==> r->Ok_0.repo == self && r->Ok_0.ns == *remote && r->Ok_0.k@ == 0
    { unimplemented!() }
}
pub struct ExistingIter<'a> { pub repo: &'a Repository, pub ns: PublicKey, pub k: Ghost<int> }
impl<'a> ExistingIter<'a> {
    #[verifier::external_body]
    pub fn next(&mut self) -> (r: Option<(RefString, Oid)>)
        ensures final(self).repo == old(self).repo, final(self).ns == old(self).ns,
            old(self).k@ < old(self).repo.existing(old(self).ns).len() ==> r is Some && final(self).k@ == old(self).k@ + 1 && r->Some_0 == old(self).repo.existing(old(self).ns)[old(self).k@],
            old(self).k@ >= old(self).repo.existing(old(self).ns).len() ==> r is None && final(self).k@ == old(self).k@,
    { unimplemented!() }
}
pub struct FetchState; pub struct ReceivedRef;

//@extract crates/radicle-fetch/src/git/refs/update.rs
//@  item enum Policy
//@  item enum Update
//@  item struct Updates
//@    derive
//@end
impl<'a> Updates<'a> {
    /// ghost: the direct updates / prunes queued under `remote`
    pub uninterp spec fn directs(self, remote: PublicKey) -> Map<Namespaced<'static>, Oid>;
    pub uninterp spec fn prunes(self, remote: PublicKey) -> Map<Namespaced<'static>, Oid>;
    /// stand-in for Updates::default(): nothing queued
    #[verifier::external_body]
    pub fn default() -> (r: Self) ensures forall|k: PublicKey| #[trigger] r.directs(k) == Map::<Namespaced<'static>, Oid>::empty(), forall|k: PublicKey| #[trigger] r.prunes(k) == Map::<Namespaced<'static>, Oid>::empty() { unimplemented!() }
    /// stand-in for Updates::add (BTreeMap entry API: `.entry(remote).and_modify(push).or_insert(vec![up])`): ASSUMED to
    /// queue `up` under `remote` and to leave everything else as it was
    #[verifier::external_body]
    pub fn add(&mut self, remote: PublicKey, up: Update<'a>)
        ensures
            forall|k: PublicKey| k != remote ==> #[trigger] final(self).directs(k) == old(self).directs(k),
            forall|k: PublicKey| k != remote ==> #[trigger] final(self).prunes(k) == old(self).prunes(k),
            up matches Update::Direct { name, target, no_ff } ==> final(self).directs(remote) == old(self).directs(remote).insert(nsname(name.ns, name.name), target) && final(self).prunes(remote) == old(self).prunes(remote),
            up matches Update::Prune { name, prev } ==> final(self).directs(remote) == old(self).directs(remote)
                && (prev matches Either::Left(t) ==> final(self).prunes(remote) == old(self).prunes(remote).insert(nsname(name.ns, name.name), t)),
    { unimplemented!() }
}

// ---- statement (C01) -------------------------------------------------------------------------------------
/// the updates queued under `R` (directs `d`, prunes `p`) make R's namespace equal its signed refs `sr`, given what exists there now
pub open spec fn matches_signed_m(d: Map<Namespaced<'static>, Oid>, p: Map<Namespaced<'static>, Oid>, repo: &Repository, R: PublicKey, sr: SignedRefsAt) -> bool {
    // every signed ref is set to its signed target
    &&& forall|i: int| 0 <= i < sr.seq().len() ==> d.contains_key(#[trigger] nsname(R, sr.seq()[i].0)) && d[nsname(R, sr.seq()[i].0)] == sr.seq()[i].1
    // every other existing ref of THIS namespace outside refs/rad is pruned (with the target it has now)
    &&& forall|j: int| 0 <= j < repo.existing(R).len() && !is_rad(repo.existing(R)[j].0) && !sr.signs(repo.existing(R)[j].0)
            ==> p.contains_key(#[trigger] nsname(R, repo.existing(R)[j].0)) && p[nsname(R, repo.existing(R)[j].0)] == repo.existing(R)[j].1
}
pub open spec fn matches_signed(u: Updates<'_>, repo: &Repository, R: PublicKey, sr: SignedRefsAt) -> bool {
    matches_signed_m(u.directs(R), u.prunes(R), repo, R, sr)
}
/// ASSUMED (BTreeMap keys; one ref per name in a namespace): no remote and no existing reference name occurs twice
#[verifier::external_body]
pub proof fn unique_names(m: &RemoteRefs, repo: &Repository)
    ensures
        forall|i: int, j: int| 0 <= i < j < m.keys().len() ==> m.keys()[i] != m.keys()[j],
        forall|r: PublicKey, i: int, j: int| 0 <= i < j < repo.existing(r).len() ==> repo.existing(r)[i].0 != repo.existing(r)[j].0,
        forall|sr: SignedRefsAt, i: int, j: int| 0 <= i < j < sr.seq().len() ==> sr.seq()[i].0 != sr.seq()[j].0,
{}
/// nothing is pruned that is signed, or that lies in another namespace or under refs/rad
pub open spec fn prunes_ok(u: Updates<'_>, R: PublicKey, sr: SignedRefsAt) -> bool {
    forall|n: Namespaced<'static>| #[trigger] u.prunes(R).contains_key(n) ==> n.ns == R && !is_rad(n.name) && !sr.signs(n.name)
}

pub struct DataRefs { pub remote: PublicKey, pub remotes: RemoteRefs, pub limit: u64 }
pub trait ProtocolStage {
    fn prepare_updates<'a>(&self, _s: &FetchState, repo: &Repository, _refs: &'a [ReceivedRef]) -> Result<Updates<'a>, error::Prepare>;
}
//@extract crates/radicle-fetch/src/stage.rs
//@  impl ProtocolStage for DataRefs
//@    drop ls_refs, ref_filter, pre_validate, wants_haves
//@    fn prepare_updates
//@      ret r
//@      attr #[verifier::exec_allows_no_decreases_clause]
//@      attr #[verifier::loop_isolation(false)]
//@      attr #[verifier::allow_complex_invariants]
//@      desugar_for
//@      desugar_try
//@      body_sub __vx_it1 = &self\.remotes; => __vx_it1 = self.remotes.vx_iter();
//@      body_sub HashSet::with_capacity\(refs\.refs\.len\(\)\) => HashSet::with_capacity(refs.vx_len())
//@      body_sub (?s)let tracking: Namespaced<'_> = Qualified::from_refstr\(name\)\s*\.and_then\(\|q\| refs::ReceivedRefname::remote\(\*remote, q\)\.to_namespaced\(\)\)\s*\.expect\("we checked sigrefs well-formedness in wants_refs already"\); => let tracking: Namespaced<'_> = vx_tracking(remote, name);
//@      body_sub signed\.insert\(tracking\.clone\(\)\) => signed.insert(vx_clone_name(&tracking))
//@      body_sub let prefix_rad = refname!\("refs/rad"\); =>
//@      body_sub name\.starts_with\(prefix_rad\.as_str\(\)\) => vx_starts_with_rad(&name)
//@      body_sub (?s)Qualified::from_refstr\(name\)\s*\.expect\("BUG: reference is guaranteed to be Qualified"\)\s*\.with_namespace\(Component::from\(remote\)\) => vx_namespaced(remote, name)
//@      nloops 3
//@      loop 1
//@        invariant
//@          0 <= __vx_it1.k@ <= self.remotes.keys().len() && __vx_it1.m == &self.remotes
//@          forall|q: int| 0 <= q < __vx_it1.k@ ==> matches_signed(updates, repo, #[trigger] self.remotes.keys()[q], self.remotes.refs_of(q))
//@        ensures
//@          __vx_it1.k@ == self.remotes.keys().len()
//@      loop 2
//@        invariant
//@          0 <= __vx_it2.k@ <= refs.seq().len() && __vx_it2.s == refs
//@          1 <= __vx_it1.k@ <= self.remotes.keys().len() && __vx_it1.m == &self.remotes && *remote == self.remotes.keys()[__vx_it1.k@ - 1] && *refs == self.remotes.refs_of(__vx_it1.k@ - 1)
//@          forall|q: int| 0 <= q < __vx_it1.k@ - 1 ==> matches_signed(updates, repo, #[trigger] self.remotes.keys()[q], self.remotes.refs_of(q))
//@          # the signed names seen so far are in `signed` and have their direct update queued
//@          forall|i: int| 0 <= i < __vx_it2.k@ ==> signed@.contains(nsname(*remote, #[trigger] refs.seq()[i].0)) && updates.directs(*remote).contains_key(nsname(*remote, refs.seq()[i].0)) && updates.directs(*remote)[nsname(*remote, refs.seq()[i].0)] == refs.seq()[i].1
//@          forall|n: Namespaced<'static>| #[trigger] signed@.contains(n) ==> n.ns == *remote && refs.signs(n.name)
//@        ensures
//@          __vx_it2.k@ == refs.seq().len()
//@      loop 3
//@        invariant
//@          0 <= __vx_it3.k@ <= repo.existing(*remote).len() && __vx_it3.repo == repo && __vx_it3.ns == *remote
//@          1 <= __vx_it1.k@ <= self.remotes.keys().len() && __vx_it1.m == &self.remotes && *remote == self.remotes.keys()[__vx_it1.k@ - 1] && *refs == self.remotes.refs_of(__vx_it1.k@ - 1)
//@          forall|q: int| 0 <= q < __vx_it1.k@ - 1 ==> matches_signed(updates, repo, #[trigger] self.remotes.keys()[q], self.remotes.refs_of(q))
//@          forall|i: int| 0 <= i < refs.seq().len() ==> signed@.contains(nsname(*remote, #[trigger] refs.seq()[i].0)) && updates.directs(*remote).contains_key(nsname(*remote, refs.seq()[i].0)) && updates.directs(*remote)[nsname(*remote, refs.seq()[i].0)] == refs.seq()[i].1
//@          forall|n: Namespaced<'static>| #[trigger] signed@.contains(n) ==> n.ns == *remote && refs.signs(n.name)
//@          # the existing refs seen so far that are neither under refs/rad nor signed have their prune queued
//@          forall|j: int| 0 <= j < __vx_it3.k@ && !is_rad(repo.existing(*remote)[j].0) && !refs.signs(repo.existing(*remote)[j].0) ==> updates.prunes(*remote).contains_key(#[trigger] nsname(*remote, repo.existing(*remote)[j].0)) && updates.prunes(*remote)[nsname(*remote, repo.existing(*remote)[j].0)] == repo.existing(*remote)[j].1
//@        ensures
//@          __vx_it3.k@ == repo.existing(*remote).len()
//@      ensures
//@        # C01: for every fetched remote, the queued updates make its namespace equal its signed refs
//@        r is Ok ==> forall|q: int| 0 <= q < self.remotes.keys().len() ==> matches_signed(r->Ok_0, repo, #[trigger] self.remotes.keys()[q], self.remotes.refs_of(q)) //[C01]
//@      head
//@        proof { names_lawful(); unique_names(&self.remotes, repo); }
//@end

//@canary
} // verus!
fn main() {}
