// Unit `wire_frame` (C14, C13): varint / frame decoding and the stream deserializer of radicle-node,
// against a parse specification written from the property statement.
use vstd::prelude::*;
use std::marker::PhantomData;
use std::ops;
//@include _prelude.rs

verus! {
//@include _panic.rs
//@include _io.rs

// ---- environment (declarations only) ---------------------------------------------------------
pub mod io {
    pub use std::io::{Read, Write, Error, ErrorKind, Result};
    pub use crate::Cursor;
}
/// stand-in for the `byteorder` crate (external): big-endian reads over the stream model.
pub mod byteorder {
    use vstd::prelude::*;
    use crate::*;
    pub trait ReadBytesExt: std::io::Read {
        /// ASSUMED (byteorder): read_u8 is read_exact of one byte.
        fn read_u8(&mut self) -> (r: Result<u8, std::io::Error>)
            ensures
                r is Ok ==> (*old(self)).rem().len() >= 1 && r->Ok_0 == (*old(self)).rem()[0]
                    && (*final(self)).rem() == (*old(self)).rem().skip(1) && (*final(self)).consumed() == (*old(self)).consumed() + 1,
                r is Err ==> is_eof_kind(r->Err_0) && (*old(self)).rem().len() < 1;
    }
    impl<R: std::io::Read + ?Sized> ReadBytesExt for R {
        #[verifier::external_body]
        fn read_u8(&mut self) -> (r: Result<u8, std::io::Error>) { unimplemented!() }
    }
}
use byteorder::ReadBytesExt;
/// ASSUMED (std): {u16,u32,u64}::from_be_bytes is big-endian composition. (The std signature uses an anonymous
/// const for the array length, which `assume_specification` cannot name; call sites are renamed mechanically.)
#[verifier::external_body]
pub fn u16_from_be_bytes(b: [u8; 2]) -> (r: u16) ensures r == be16(b[0], b[1]) { u16::from_be_bytes(b) }
#[verifier::external_body]
pub fn u32_from_be_bytes(b: [u8; 4]) -> (r: u32) ensures r == be32(b[0], b[1], b[2], b[3]) { u32::from_be_bytes(b) }
#[verifier::external_body]
pub fn u64_from_be_bytes(b: [u8; 8]) -> (r: u64) ensures r == be64(b@) { u64::from_be_bytes(b) }
pub open spec fn be16(a: u8, b: u8) -> u16 { (a as u16 * 256 + b as u16) as u16 }
pub open spec fn be32(a: u8, b: u8, c: u8, d: u8) -> u32 { (((a as u32 * 256 + b as u32) * 256 + c as u32) * 256 + d as u32) as u32 }
pub open spec fn be64(b: Seq<u8>) -> u64 {
    ((((((((b[0] as u64 * 256 + b[1] as u64) * 256 + b[2] as u64) * 256 + b[3] as u64) * 256 + b[4] as u64) * 256 + b[5] as u64) * 256 + b[6] as u64) * 256) + b[7] as u64) as u64
}

pub mod wire {
    pub use crate::{Decode, Error};
}
pub struct FromUtf8Error;
pub mod fmt { pub struct Error; }
pub mod node { pub struct AliasError; }
pub mod tor { pub struct OnionAddrDecodeError; }
pub const PROTOCOL_VERSION: u8 = 1;

// ---- ghost vocabulary: what the bytes of a stream mean (from the statement) -------------------
/// Outcome of parsing one value from the front of a byte sequence.
pub enum Parse {
    /// a complete value occupies the first `n` bytes
    Complete(nat),
    /// the bytes are a strict prefix of some encoding: more data is needed
    Incomplete,
    /// no continuation of these bytes is a valid encoding
    Invalid,
}

/// How a decode result must relate to the parse of the bytes that were available.
pub open spec fn decode_matches(p: Parse, r_ok: bool, r_eof: bool, before: Seq<u8>, after: Seq<u8>, c0: nat, c1: nat) -> bool {
    match p {
        Parse::Complete(n) => r_ok && n <= before.len() && after =~= before.skip(n as int) && c1 == c0 + n,
        Parse::Incomplete => !r_ok && r_eof,
        Parse::Invalid => !r_ok && !r_eof,
    }
}

//@extract crates/radicle-node/src/wire.rs
//@  item enum Error
//@    derive
//@    thiserror_from
//@  impl Error
//@    add
//@      pub open spec fn is_eof_spec(self) -> bool { self matches Error::Io(e) && is_eof_kind(e) }
//@    fn is_eof
//@      ret r
//@      ensures
//@        r == self.is_eof_spec()
//@  trait Decode
//@    add
//@      /// ghost: the parse of this type's wire format (per impl, from the format description)
//@      spec fn parse(s: Seq<u8>) -> Parse;
//@      /// ghost: prefix laws every wire format must satisfy (this is what makes chunking irrelevant)
//@      proof fn parse_laws(s: Seq<u8>, t: Seq<u8>)
//@          ensures
//@              Self::parse(s) matches Parse::Complete(n) ==> n <= s.len() && Self::parse(s + t) == Self::parse(s),
//@              Self::parse(s) is Invalid ==> Self::parse(s + t) is Invalid;
//@    fn decode
//@      ret r
//@      ensures
//@        decode_matches(Self::parse((*old(reader)).rem()), r is Ok, r is Err && r->Err_0.is_eof_spec(), (*old(reader)).rem(), (*final(reader)).rem(), (*old(reader)).consumed(), (*final(reader)).consumed())
//@end

pub proof fn lemma_varint_max() ensures sub(1u64 << 62, 1) == 4611686018427387903u64 { assert(sub(1u64 << 62, 1) == 4611686018427387903u64) by (bit_vector); }

// ---- varint (RFC 9000 section 16), from the table in the doc comment of VarInt ----------------------
pub open spec fn varint_len(b0: u8) -> nat {
    let t = b0 >> 6;
    if t == 0 { 1 } else if t == 1 { 2 } else if t == 2 { 4 } else { 8 }
}
pub open spec fn varint_parse(s: Seq<u8>) -> Parse {
    if s.len() == 0 || s.len() < varint_len(s[0]) { Parse::Incomplete } else { Parse::Complete(varint_len(s[0])) }
}
pub open spec fn varint_val(s: Seq<u8>) -> u64 {
    let h = s[0] & 0x3f;
    let t = s[0] >> 6;
    if t == 0 { h as u64 }
    else if t == 1 { be16(h, s[1]) as u64 }
    else if t == 2 { be32(h, s[1], s[2], s[3]) as u64 }
    else { be64(seq![h, s[1], s[2], s[3], s[4], s[5], s[6], s[7]]) }
}

//@extract crates/radicle-node/src/wire/varint.rs
//@  item struct VarInt
//@    derive Default, Copy, Clone, Eq, PartialEq
//@  item struct BoundsExceeded
//@    derive Debug, Copy, Clone, Eq, PartialEq
//@  impl VarInt
//@    # Verus cannot evaluate `1 << 62` without bit-vector mode; the literal is proved equal below (lemma_varint_max)
//@    const_sub \(1 << 62\) - 1 => 4611686018427387903u64
//@    fn new
//@      ret r
//@      ensures
//@        r is Ok <==> x < 0x4000_0000_0000_0000
//@        r is Ok ==> r->Ok_0.0 == x
//@  impl ops::Deref for VarInt
//@    fn deref
//@      ret r
//@      ensures
//@        *r == self.0
//@  impl Decode for VarInt
//@    add
//@      open spec fn parse(s: Seq<u8>) -> Parse { varint_parse(s) }
//@      proof fn parse_laws(s: Seq<u8>, t: Seq<u8>) {
//@          if s.len() > 0 { assert((s + t)[0] == s[0]); }
//@      }
//@    fn decode
//@      desugar_try
//@      body_sub u16::from_be_bytes\( => u16_from_be_bytes(
//@      body_sub u32::from_be_bytes\( => u32_from_be_bytes(
//@      body_sub u64::from_be_bytes\( => u64_from_be_bytes(
//@      ret res
//@      ensures
//@        res is Ok ==> res->Ok_0.0 == varint_val((*old(r)).rem())
//@      head
//@        proof { assert(forall|b: u8| #[trigger] (b >> 6) < 4) by (bit_vector); }
//@end

//@canary
} // verus!
fn main() {}
