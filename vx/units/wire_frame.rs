// Unit `wire_frame` (C14, C13): varint / frame decoding and the stream deserializer of radicle-node,
// against a parse specification written from the property statement.
use vstd::prelude::*;
use std::marker::PhantomData;
use std::ops;
//@include _prelude.rs
//@alloc_budget
//@rlimit 40

verus! {
//@include _panic.rs
//@include _io.rs

// ---- environment (declarations only) ---------------------------------------------------------
pub mod io {
    pub use std::io::{Read, Write, Error, ErrorKind, Result};
    pub use crate::Cursor;
}
/// stand-in for the `byteorder` crate (external): big-endian reads over the stream model.
pub mod byteorder {
    use vstd::prelude::*;
    use crate::*;
    pub trait ReadBytesExt: std::io::Read {
        /// ASSUMED (byteorder): read_u8 is read_exact of one byte.
        fn read_u8(&mut self) -> (r: Result<u8, std::io::Error>)
            ensures
                r is Ok ==> (*old(self)).rem().len() >= 1 && r->Ok_0 == (*old(self)).rem()[0]
                    && (*final(self)).rem() == (*old(self)).rem().skip(1) && (*final(self)).consumed() == (*old(self)).consumed() + 1,
                r is Err ==> is_eof_kind(r->Err_0) && (*old(self)).rem().len() < 1;
        /// ASSUMED (byteorder): read_u16::<NetworkEndian> is read_exact of two bytes, big-endian.
        fn read_u16<B>(&mut self) -> (r: Result<u16, std::io::Error>)
            ensures
                r is Ok ==> (*old(self)).rem().len() >= 2 && r->Ok_0 == be16((*old(self)).rem()[0], (*old(self)).rem()[1])
                    && (*final(self)).rem() == (*old(self)).rem().skip(2) && (*final(self)).consumed() == (*old(self)).consumed() + 2,
                r is Err ==> is_eof_kind(r->Err_0) && (*old(self)).rem().len() < 2;
    }
    pub struct NetworkEndian;
    impl<R: std::io::Read + ?Sized> ReadBytesExt for R {
        #[verifier::external_body]
        fn read_u8(&mut self) -> (r: Result<u8, std::io::Error>) { unimplemented!() }
        #[verifier::external_body]
        fn read_u16<B>(&mut self) -> (r: Result<u16, std::io::Error>) { unimplemented!() }
    }
}
use byteorder::{ReadBytesExt, NetworkEndian};
/// ASSUMED (std): {u16,u32,u64}::from_be_bytes is big-endian composition. (The std signature uses an anonymous
/// const for the array length, which `assume_specification` cannot name; call sites are renamed mechanically.)
#[verifier::external_body]
pub fn u16_from_be_bytes(b: [u8; 2]) -> (r: u16) ensures r == be16(b[0], b[1]) { u16::from_be_bytes(b) }
#[verifier::external_body]
pub fn u32_from_be_bytes(b: [u8; 4]) -> (r: u32) ensures r == be32(b[0], b[1], b[2], b[3]) { u32::from_be_bytes(b) }
#[verifier::external_body]
pub fn u64_from_be_bytes(b: [u8; 8]) -> (r: u64) ensures r == be64(b@) { u64::from_be_bytes(b) }
pub open spec fn be16(a: u8, b: u8) -> u16 { (a as u16 * 256 + b as u16) as u16 }
pub open spec fn be32(a: u8, b: u8, c: u8, d: u8) -> u32 { (((a as u32 * 256 + b as u32) * 256 + c as u32) * 256 + d as u32) as u32 }
pub open spec fn be64(b: Seq<u8>) -> u64 {
    ((((((((b[0] as u64 * 256 + b[1] as u64) * 256 + b[2] as u64) * 256 + b[3] as u64) * 256 + b[4] as u64) * 256 + b[5] as u64) * 256 + b[6] as u64) * 256) + b[7] as u64) as u64
}

pub mod wire {
    pub use crate::{Decode, Error};
}
pub mod varint {
    pub use crate::{VarInt, BoundsExceeded, payload};
}
pub struct FromUtf8Error;
pub mod fmt { pub struct Error; }
pub mod node { pub struct AliasError; }
pub mod tor { pub struct OnionAddrDecodeError; }
pub const PROTOCOL_VERSION: u8 = 1;

// ---- ghost vocabulary: what the bytes of a stream mean (from the statement) -------------------
/// Outcome of parsing one value from the front of a byte sequence.
pub enum Parse {
    /// a complete value occupies the first `n` bytes
    Complete(nat),
    /// the bytes are a strict prefix of some encoding: more data is needed
    Incomplete,
    /// no continuation of these bytes is a valid encoding
    Invalid,
}

/// How a decode result must relate to the parse of the bytes that were available.
pub open spec fn decode_matches(p: Parse, r_ok: bool, r_eof: bool, before: Seq<u8>, after: Seq<u8>, c0: nat, c1: nat) -> bool {
    match p {
        Parse::Complete(n) => r_ok && n <= before.len() && after =~= before.skip(n as int) && c1 == c0 + n,
        Parse::Incomplete => !r_ok && r_eof,
        Parse::Invalid => !r_ok && !r_eof,
    }
}

//@extract crates/radicle-node/src/wire.rs
//@  item enum Error
//@    derive
//@    thiserror_from
//@  impl Error
//@    add
//@      pub open spec fn is_eof_spec(self) -> bool { self matches Error::Io(e) && is_eof_kind(e) }
//@    fn is_eof
//@      ret r
//@      ensures
//@        r == self.is_eof_spec()
//@  trait Decode
//@    add
//@      /// ghost: the parse of this type's wire format (per impl, from the format description)
//@      spec fn parse(s: Seq<u8>) -> Parse;
//@      /// ghost: prefix laws every wire format must satisfy (this is what makes chunking irrelevant)
//@      proof fn parse_laws(s: Seq<u8>, t: Seq<u8>)
//@          ensures
//@              Self::parse(s) matches Parse::Complete(n) ==> n <= s.len() && Self::parse(s + t) == Self::parse(s),
//@              Self::parse(s) is Invalid ==> Self::parse(s + t) is Invalid;
//@    fn decode
//@      ret r
//@      requires
//@        (*old(reader)).rem().len() <= vx_received()
//@      ensures
//@        decode_matches(Self::parse((*old(reader)).rem()), r is Ok, r is Err && r->Err_0.is_eof_spec(), (*old(reader)).rem(), (*final(reader)).rem(), (*old(reader)).consumed(), (*final(reader)).consumed())
//@end

pub proof fn lemma_varint_max() ensures sub(1u64 << 62, 1) == 4611686018427387903u64 { assert(sub(1u64 << 62, 1) == 4611686018427387903u64) by (bit_vector); }

// ---- varint (RFC 9000 section 16), from the table in the doc comment of VarInt ----------------------
pub open spec fn varint_len(b0: u8) -> nat {
    let t = b0 >> 6;
    if t == 0 { 1 } else if t == 1 { 2 } else if t == 2 { 4 } else { 8 }
}
pub open spec fn varint_parse(s: Seq<u8>) -> Parse {
    if s.len() == 0 || s.len() < varint_len(s[0]) { Parse::Incomplete } else { Parse::Complete(varint_len(s[0])) }
}
pub open spec fn varint_val(s: Seq<u8>) -> u64 {
    let h = s[0] & 0x3f;
    let t = s[0] >> 6;
    if t == 0 { h as u64 }
    else if t == 1 { be16(h, s[1]) as u64 }
    else if t == 2 { be32(h, s[1], s[2], s[3]) as u64 }
    else { be64(seq![h, s[1], s[2], s[3], s[4], s[5], s[6], s[7]]) }
}

//@extract crates/radicle-node/src/wire/varint.rs
//@  item struct VarInt
//@    derive Default, Copy, Clone, Eq, PartialEq, Debug, Hash
//@  item struct BoundsExceeded
//@    derive Debug, Copy, Clone, Eq, PartialEq
//@  impl VarInt
//@    # Verus cannot evaluate `1 << 62` without bit-vector mode; the literal is proved equal below (lemma_varint_max)
//@    const_sub \(1 << 62\) - 1 => 4611686018427387903u64
//@    fn new
//@      ret r
//@      ensures
//@        r is Ok <==> x < 0x4000_0000_0000_0000
//@        r is Ok ==> r->Ok_0.0 == x
//@  impl ops::Deref for VarInt
//@    fn deref
//@      ret r
//@      ensures
//@        *r == self.0
//@  impl Decode for VarInt
//@    add
//@      open spec fn parse(s: Seq<u8>) -> Parse { varint_parse(s) }
//@      proof fn parse_laws(s: Seq<u8>, t: Seq<u8>) {
//@          if s.len() > 0 { assert((s + t)[0] == s[0]); }
//@      }
//@    fn decode
//@      touch Self::parse(arbitrary())
//@      desugar_try
//@      body_sub u16::from_be_bytes\( => u16_from_be_bytes(
//@      body_sub u32::from_be_bytes\( => u32_from_be_bytes(
//@      body_sub u64::from_be_bytes\( => u64_from_be_bytes(
//@      ret res
//@      ensures
//@        res is Ok ==> res->Ok_0.0 == varint_val((*old(r)).rem())
//@      head
//@        proof { assert(forall|b: u8| #[trigger] (b >> 6) < 4) by (bit_vector); }
//@end

pub open spec fn payload_parse(s: Seq<u8>) -> Parse {
    match varint_parse(s) {
        Parse::Complete(n) => if s.len() < n + varint_val(s) { Parse::Incomplete } else { Parse::Complete(n + varint_val(s) as nat) },
        p => p,
    }
}

//@extract crates/radicle-node/src/wire/varint.rs
//@  mod payload
//@    wrap
//@    fn decode
//@      desugar_try
//@      body_sub? \(&mut \*reader\)\.take\(\*size\)\.read_to_end\(&mut data\) => vx_take_read_to_end(reader, *size, &mut data)
//@      head
//@        proof { std_from_refl::<wire::Error>(); }
//@      ret res
//@      requires
//@        (*old(reader)).rem().len() <= vx_received()
//@      ensures
//@        decode_matches(payload_parse((*old(reader)).rem()), res is Ok, res is Err && res->Err_0.is_eof_spec(), (*old(reader)).rem(), (*final(reader)).rem(), (*old(reader)).consumed(), (*final(reader)).consumed())
//@        res is Ok ==> res->Ok_0@ =~= (*old(reader)).rem().subrange(varint_len((*old(reader)).rem()[0]) as int, varint_len((*old(reader)).rem()[0]) + varint_val((*old(reader)).rem()))
//@end

pub open spec fn fixed_parse(s: Seq<u8>, n: nat) -> Parse { if s.len() < n { Parse::Incomplete } else { Parse::Complete(n) } }

//@extract crates/radicle-node/src/wire.rs
//@  impl Decode for u8
//@    add
//@      open spec fn parse(s: Seq<u8>) -> Parse { fixed_parse(s, 1) }
//@      proof fn parse_laws(s: Seq<u8>, t: Seq<u8>) {}
//@    fn decode
//@      touch Self::parse(arbitrary())
//@      ret res
//@      ensures
//@        res is Ok ==> res->Ok_0 == (*old(reader)).rem()[0]
//@      body_sub reader\.read_u8\(\)\.map_err\(Error::from\) => reader.read_u8().map_err(|e| -> (o: Error) ensures o == Error::Io(e) { Error::from(e) })
//@  impl Decode for u16
//@    add
//@      open spec fn parse(s: Seq<u8>) -> Parse { fixed_parse(s, 2) }
//@      proof fn parse_laws(s: Seq<u8>, t: Seq<u8>) {}
//@    fn decode
//@      touch Self::parse(arbitrary())
//@      ret res
//@      ensures
//@        res is Ok ==> res->Ok_0 == be16((*old(reader)).rem()[0], (*old(reader)).rem()[1])
//@      body_sub reader\.read_u16::<NetworkEndian>\(\)\.map_err\(Error::from\) => reader.read_u16::<NetworkEndian>().map_err(|e| -> (o: Error) ensures o == Error::Io(e) { Error::from(e) })
//@  impl <const N: usize> Decode for [u8; N]
//@    add
//@      open spec fn parse(s: Seq<u8>) -> Parse { fixed_parse(s, N as nat) }
//@      proof fn parse_laws(s: Seq<u8>, t: Seq<u8>) {}
//@    fn decode
//@      touch Self::parse(arbitrary())
//@      desugar_try
//@      ret res
//@      ensures
//@        res is Ok ==> res->Ok_0@ =~= (*old(reader)).rem().take(N as int)
//@end

// ---- frames ----------------------------------------------------------------------------------------
/// opaque stand-in for the gossip message type: its decoder is NOT verified in this unit (see C15 harnesses);
/// it is only required to satisfy the `Decode` contract (parse + prefix laws).
pub struct Message;
pub uninterp spec fn message_parse(s: Seq<u8>) -> Parse;
impl Decode for Message {
    open spec fn parse(s: Seq<u8>) -> Parse { message_parse(s) }
    /// ASSUMED: the gossip message format obeys the prefix laws.
    #[verifier::external_body]
    proof fn parse_laws(s: Seq<u8>, t: Seq<u8>) {}
    /// ASSUMED: Message::decode follows its format (Decode contract); checked separately, bounded, by Kani (C13/C15).
    #[verifier::external_body]
    fn decode<R: io::Read + ?Sized>(reader: &mut R) -> Result<Self, Error> { unimplemented!() }
}

pub open spec fn magic() -> Seq<u8> { seq![0x72u8, 0x61u8, 0x64u8, 1u8] }
pub open spec fn version_parse(s: Seq<u8>) -> Parse {
    if s.len() < 4 { Parse::Incomplete } else if s.take(4) =~= magic() { Parse::Complete(4) } else { Parse::Invalid }
}
pub open spec fn stream_kind(id: u64) -> u8 { ((id >> 1) & 0b11) as u8 }
pub open spec fn shift(p: Parse, k: nat) -> Parse { match p { Parse::Complete(n) => Parse::Complete(n + k), q => q } }
pub open spec fn control_parse(s: Seq<u8>) -> Parse {
    if s.len() < 1 { Parse::Incomplete } else if s[0] > 2 { Parse::Invalid } else { shift(varint_parse(s.skip(1)), 1) }
}
/// From the statement: a frame is version, stream id, then by stream kind a control message or a varint-prefixed
/// payload; a gossip payload must contain a complete message -- a complete payload whose message is truncated
/// or invalid makes the FRAME invalid (an error), never incomplete.
pub open spec fn frame_body_parse<M: Decode>(kind: u8, rest: Seq<u8>) -> Parse {
    if kind == 0 { control_parse(rest) }
    else if kind == 1 {
        match payload_parse(rest) {
            Parse::Complete(k) => {
                let vl = varint_len(rest[0]);
                match M::parse(rest.subrange(vl as int, k as int)) { Parse::Complete(_) => Parse::Complete(k), _ => Parse::Invalid }
            }
            p => p,
        }
    }
    else if kind == 2 { payload_parse(rest) }
    else { Parse::Invalid }
}
pub open spec fn frame_parse<M: Decode>(s: Seq<u8>) -> Parse {
    match version_parse(s) {
        Parse::Complete(_) => match varint_parse(s.skip(4)) {
            Parse::Complete(n) => shift(frame_body_parse::<M>(stream_kind(varint_val(s.skip(4))), s.skip(4 + n as int)), 4 + n),
            p => p,
        },
        p => p,
    }
}

#[derive(Debug, Clone, PartialEq, Eq)]
pub enum Link { Outbound, Inbound }
impl Link { pub fn is_outbound(&self) -> (r: bool) ensures r == (*self == Link::Outbound) { matches!(self, Link::Outbound) } }

//@extract crates/radicle-node/src/wire/frame.rs
//@  item const PROTOCOL_VERSION_STRING
//@  item const CONTROL_OPEN
//@  item const CONTROL_CLOSE
//@  item const CONTROL_EOF
//@  item struct Version
//@  impl Version
//@    fn number
//@      ret r
//@      ensures
//@        r == self.0[3]
//@  impl wire::Decode for Version
//@    add
//@      open spec fn parse(s: Seq<u8>) -> Parse { version_parse(s) }
//@      proof fn parse_laws(s: Seq<u8>, t: Seq<u8>) { if s.len() >= 4 { assert((s + t).take(4) =~= s.take(4)); } }
//@    fn decode
//@      touch Self::parse(arbitrary())
//@      desugar_try
//@      ret res
//@      ensures
//@        res is Ok ==> res->Ok_0.0@ =~= magic()
//@  item struct StreamId
//@  item enum StreamKind
//@  impl TryFrom<u8> for StreamKind
//@    fn try_from
//@      ret r
//@      ensures
//@        value == 0 ==> r == Ok::<StreamKind, u8>(StreamKind::Control)
//@        value == 1 ==> r == Ok::<StreamKind, u8>(StreamKind::Gossip)
//@        value == 2 ==> r == Ok::<StreamKind, u8>(StreamKind::Git)
//@        value > 2 ==> r == Err::<StreamKind, u8>(value)
//@  impl StreamId
//@    fn kind
//@      ret r
//@      ensures
//@        r == <StreamKind as vstd::std_specs::convert::TryFromSpec<u8>>::try_from_spec(stream_kind(self.0.0))
//@  impl wire::Decode for StreamId
//@    add
//@      open spec fn parse(s: Seq<u8>) -> Parse { varint_parse(s) }
//@      proof fn parse_laws(s: Seq<u8>, t: Seq<u8>) { VarInt::parse_laws(s, t); }
//@    fn decode
//@      touch Self::parse(arbitrary())
//@      desugar_try
//@      head
//@        proof { std_from_refl::<wire::Error>(); }
//@      ret res
//@      ensures
//@        res is Ok ==> res->Ok_0.0.0 == varint_val((*old(reader)).rem())
//@  item struct Frame
//@  item enum FrameData
//@  item enum Control
//@  impl <M> Frame<M>
//@    fn git
//@      ret r
//@      ensures
//@        r.stream == stream
//@        r.data == FrameData::<M>::Git(data)
//@  impl wire::Decode for Control
//@    add
//@      open spec fn parse(s: Seq<u8>) -> Parse { control_parse(s) }
//@      proof fn parse_laws(s: Seq<u8>, t: Seq<u8>) {
//@          if s.len() >= 1 { assert((s + t)[0] == s[0]); assert((s + t).skip(1) =~= s.skip(1) + t); VarInt::parse_laws(s.skip(1), t); }
//@      }
//@    fn decode
//@      touch Self::parse(arbitrary())
//@      desugar_try
//@      head
//@        proof { std_from_refl::<wire::Error>(); }
//@  impl <M: wire::Decode> wire::Decode for Frame<M>
//@    add
//@      open spec fn parse(s: Seq<u8>) -> Parse { frame_parse::<M>(s) }
//@      proof fn parse_laws(s: Seq<u8>, t: Seq<u8>) { lemma_frame_laws::<M>(s, t); }
//@    fn decode
//@      touch Self::parse(arbitrary())
//@      desugar_try
//@      head
//@        proof { std_from_refl::<wire::Error>(); std_io_error_from_kind(); lemma_seq_facts(); }
//@end

impl vstd::std_specs::convert::TryFromSpecImpl<u8> for StreamKind {
    open spec fn obeys_try_from_spec() -> bool { true }
    open spec fn try_from_spec(v: u8) -> Result<Self, u8> {
        if v == 0 { Ok(StreamKind::Control) } else if v == 1 { Ok(StreamKind::Gossip) } else if v == 2 { Ok(StreamKind::Git) } else { Err(v) }
    }
}

/// sequence algebra the solver does not find by itself (extensional equalities), stated once with triggers
pub proof fn lemma_seq_facts()
    ensures
        forall|a: Seq<u8>, i: int, j: int| 0 <= i && 0 <= j && i + j <= a.len() ==> #[trigger] a.skip(i).skip(j) == a.skip(i + j),
        forall|a: Seq<u8>| #[trigger] a.skip(0) == a,
        forall|a: Seq<u8>, i: int, j: int, k: int| 0 <= i && 0 <= j <= k && i + k <= a.len() ==> #[trigger] a.skip(i).subrange(j, k) == a.subrange(i + j, i + k),
{
    assert forall|a: Seq<u8>, i: int, j: int| 0 <= i && 0 <= j && i + j <= a.len() implies #[trigger] a.skip(i).skip(j) == a.skip(i + j) by {
        assert(a.skip(i).skip(j) =~= a.skip(i + j));
    }
    assert forall|a: Seq<u8>| #[trigger] a.skip(0) == a by { assert(a.skip(0) =~= a); }
    assert forall|a: Seq<u8>, i: int, j: int, k: int| 0 <= i && 0 <= j <= k && i + k <= a.len() implies #[trigger] a.skip(i).subrange(j, k) == a.subrange(i + j, i + k) by {
        assert(a.skip(i).subrange(j, k) =~= a.subrange(i + j, i + k));
    }
}

pub proof fn lemma_payload_laws(s: Seq<u8>, t: Seq<u8>)
    ensures
        payload_parse(s) matches Parse::Complete(n) ==> n <= s.len() && payload_parse(s + t) == payload_parse(s),
        payload_parse(s) is Invalid ==> payload_parse(s + t) is Invalid,
{
    VarInt::parse_laws(s, t);
    if let Parse::Complete(n) = varint_parse(s) {
        assert(varint_val(s + t) == varint_val(s)) by {
            assert forall|i: int| 0 <= i < n implies (s + t)[i] == s[i] by {}
        }
    }
}

pub proof fn lemma_frame_laws<M: Decode>(s: Seq<u8>, t: Seq<u8>)
    ensures
        frame_parse::<M>(s) matches Parse::Complete(n) ==> n <= s.len() && frame_parse::<M>(s + t) == frame_parse::<M>(s),
        frame_parse::<M>(s) is Invalid ==> frame_parse::<M>(s + t) is Invalid,
{
    if s.len() >= 4 {
        assert((s + t).take(4) =~= s.take(4));
        assert((s + t).skip(4) =~= s.skip(4) + t);
        VarInt::parse_laws(s.skip(4), t);
        if let Parse::Complete(n) = varint_parse(s.skip(4)) {
            assert(varint_val(s.skip(4) + t) == varint_val(s.skip(4))) by {
                assert forall|i: int| 0 <= i < n implies (s.skip(4) + t)[i] == s.skip(4)[i] by {}
            }
            let rest = s.skip(4 + n as int);
            assert((s + t).skip(4 + n as int) =~= rest + t);
            let kind = stream_kind(varint_val(s.skip(4)));
            lemma_payload_laws(rest, t);
            Control::parse_laws(rest, t);
            if kind == 1 {
                if let Parse::Complete(k) = payload_parse(rest) {
                    let vl = varint_len(rest[0]);
                    assert((rest + t)[0] == rest[0]);
                    assert((rest + t).subrange(vl as int, k as int) =~= rest.subrange(vl as int, k as int));
                }
            }
        }
    }
}

// ---- stream deserializer ---------------------------------------------------------------------------
pub use bounded::BoundedVec;
/// ASSUMED (std): `BoundedVec::drain(..n)` used as a statement (the returned `vec::Drain` is dropped at once)
/// removes the first `n` elements. `vec::Drain` and `RangeBounds` are outside vstd; the call site is renamed.
#[verifier::external_body]
pub fn vx_drain_to<T, const N: usize>(v: &mut bounded::BoundedVec<T, N>, n: usize)
    requires n <= old(v).v@.len()
    ensures final(v).v@ =~= old(v).v@.skip(n as int)
{ v.v.drain(..n); }

//@extract crates/radicle-node/src/bounded.rs
//@  inmod bounded
//@    item enum Error
//@      derive Debug
//@    item struct BoundedVec
//@      derive Clone, PartialEq, Eq
//@    impl <T, const N: usize> BoundedVec<T, N>
//@      fn with_capacity
//@        ret r
//@        requires
//@          capacity <= vx_received() + VX_ALLOC_SLACK || capacity > N
//@        ensures
//@          r is Ok <==> capacity <= N
//@          r is Ok ==> r->Ok_0.v@.len() == 0
//@      fn as_slice
//@        ret r
//@        ensures
//@          r@ == self.v@
//@    impl <T: Clone, const N: usize> BoundedVec<T, N>
//@      fn extend_from_slice
//@        ret r
//@        requires
//@          # language guarantee: no allocation exceeds isize::MAX bytes, so the sum of two lengths cannot overflow
//@          old(self).v@.len() + slice@.len() <= usize::MAX
//@        ensures
//@          r is Ok <==> old(self).v@.len() + slice@.len() <= N
//@          r is Ok ==> final(self).v@.len() == old(self).v@.len() + slice@.len()
//@          r is Ok ==> forall|j: int| 0 <= j < old(self).v@.len() ==> #[trigger] final(self).v@[j] == old(self).v@[j]
//@          r is Ok ==> forall|j: int| old(self).v@.len() <= j < final(self).v@.len() ==> cloned::<T>(slice@[j - old(self).v@.len()], #[trigger] final(self).v@[j])
//@          r is Err ==> final(self).v@ == old(self).v@
//@    impl <T, const N: usize> ops::Deref for BoundedVec<T, N>
//@      fn deref
//@        ret r
//@        ensures
//@          r@ == self.v@
//@end

//@extract crates/radicle-node/src/deserializer.rs
//@  item struct Deserializer
//@    derive
//@  impl <const B: usize, D: wire::Decode> Deserializer<B, D>
//@    add
//@      pub open spec fn buf(self) -> Seq<u8> { self.unparsed.v@ }
//@    fn input
//@      ret r
//@      requires
//@        old(self).buf().len() + bytes@.len() <= usize::MAX
//@      ensures
//@        r is Ok <==> old(self).buf().len() + bytes@.len() <= B
//@        r is Ok ==> final(self).buf() =~= old(self).buf() + bytes@
//@        r is Err ==> final(self).buf() == old(self).buf()
//@    fn deserialize_next
//@      ret r
//@      body_sub self\.unparsed\.drain\(\.\.pos\); => vx_drain_to(&mut self.unparsed, pos);
//@      requires
//@        old(self).buf().len() <= vx_received()
//@      ensures
//@        D::parse(old(self).buf()) matches Parse::Complete(n) ==> r is Ok && r->Ok_0 is Some && final(self).buf() =~= old(self).buf().skip(n as int)
//@        D::parse(old(self).buf()) is Incomplete ==> r is Ok && r->Ok_0 is None && final(self).buf() == old(self).buf()
//@        D::parse(old(self).buf()) is Invalid ==> r is Err && final(self).buf() == old(self).buf()
//@      head
//@        proof { lemma_seq_facts(); }
//@end

// ---- chunking independence (C14), as a lemma over the contracts above -------------------------------------
/// Result of draining a buffer: the frames found (as byte ranges of the input), what is left, whether an error stopped it.
pub struct Drained { pub frames: Seq<Seq<u8>>, pub rest: Seq<u8>, pub error: bool }

/// What repeated `deserialize_next` yields on a buffer, by the contract of `deserialize_next`.
pub open spec fn drain_all<D: Decode>(buf: Seq<u8>) -> Drained
    decreases buf.len()
{
    match D::parse(buf) {
        Parse::Complete(n) => if 0 < n <= buf.len() {
            let d = drain_all::<D>(buf.skip(n as int));
            Drained { frames: seq![buf.take(n as int)] + d.frames, rest: d.rest, error: d.error }
        } else { Drained { frames: Seq::empty(), rest: buf, error: true } },
        Parse::Incomplete => Drained { frames: Seq::empty(), rest: buf, error: false },
        Parse::Invalid => Drained { frames: Seq::empty(), rest: buf, error: true },
    }
}

/// "Feeding the encoding of any sequence of frames split at arbitrary boundaries yields exactly those frames
/// in order": receiving `a` then `b` (draining in between) produces the same frames, the same leftover and
/// the same error outcome as receiving `a ++ b` at once -- for every split point, hence by induction for
/// every chunking.
pub proof fn lemma_chunking<D: Decode>(a: Seq<u8>, b: Seq<u8>)
    requires forall|s: Seq<u8>| (#[trigger] D::parse(s)) matches Parse::Complete(n) ==> n > 0
    ensures ({
        let da = drain_all::<D>(a);
        let dab = drain_all::<D>(a + b);
        let db = drain_all::<D>(da.rest + b);
        if da.error { dab.error && dab.frames =~= da.frames }
        else { dab.frames =~= da.frames + db.frames && dab.rest =~= db.rest && dab.error == db.error }
    })
    decreases a.len()
{
    D::parse_laws(a, b);
    match D::parse(a) {
        Parse::Complete(n) => {
            assert(0 < n <= a.len());
            assert((a + b).skip(n as int) =~= a.skip(n as int) + b);
            assert((a + b).take(n as int) =~= a.take(n as int));
            lemma_chunking::<D>(a.skip(n as int), b);
            let da = drain_all::<D>(a);
            let d1 = drain_all::<D>(a.skip(n as int));
            let dab = drain_all::<D>(a + b);
            assert(dab.frames =~= seq![a.take(n as int)] + drain_all::<D>(a.skip(n as int) + b).frames);
        }
        Parse::Incomplete => { }
        Parse::Invalid => { }
    }
}

//@canary
} // verus!
fn main() {}
