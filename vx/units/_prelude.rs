// ---- shared prelude (vx): mechanical stand-ins for macros that have no run-time meaning for the proofs ----
// Logging macros expand to nothing: identical to a disabled log level (arguments are not evaluated).
#[allow(unused_macros)]
macro_rules! __vx_nop { ($($t:tt)*) => {}; }
#[allow(unused_imports)]
pub mod log {
    pub(crate) use __vx_nop as trace;
    pub(crate) use __vx_nop as debug;
    pub(crate) use __vx_nop as info;
    pub(crate) use __vx_nop as warn;
    pub(crate) use __vx_nop as error;
}
#[allow(unused_imports)]
use log::{debug, error, info, trace};
