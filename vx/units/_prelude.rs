// ---- shared prelude (vx): mechanical stand-ins for macros that have no run-time meaning for the proofs ----
// Logging macros expand to nothing: identical to a disabled log level (arguments are not evaluated).
#[allow(unused_macros)]
macro_rules! __vx_nop { ($($t:tt)*) => { () }; }
#[allow(unused_imports)]
pub mod log {
    pub(crate) use __vx_nop as trace;
    pub(crate) use __vx_nop as debug;
    pub(crate) use __vx_nop as info;
    pub(crate) use __vx_nop as warn;
    pub(crate) use __vx_nop as error;
    #[allow(dead_code)]
    pub enum Level { Error, Warn, Info, Debug, Trace }
}
#[allow(unused_imports)]
use log::{debug, error, info, trace, warn};

// Panicking macros are NOT dropped: they resolve to stand-ins whose precondition is `false` (or the asserted
// condition), so Verus must prove them unreachable / true. This is how "never panics" becomes an obligation.
#[allow(unused_macros)]
macro_rules! unreachable { ($($t:tt)*) => { crate::vx_panic() }; }
#[allow(unused_macros)]
macro_rules! vx_panic_m { ($($t:tt)*) => { crate::vx_panic() }; }
#[allow(unused_macros)]
macro_rules! vx_assert_m { ($c:expr $(, $($t:tt)*)?) => { crate::vx_assert($c) }; }
#[allow(unused_macros)]
macro_rules! assert_eq { ($a:expr, $b:expr $(, $($t:tt)*)?) => { crate::vx_assert($a == $b) }; }
#[allow(unused_macros)]
macro_rules! assert_ne { ($a:expr, $b:expr $(, $($t:tt)*)?) => { crate::vx_assert($a != $b) }; }
#[allow(unused_macros)]
macro_rules! debug_assert { ($c:expr $(, $($t:tt)*)?) => { crate::vx_assert($c) }; }
#[allow(unused_macros)]
macro_rules! debug_assert_eq { ($a:expr, $b:expr $(, $($t:tt)*)?) => { crate::vx_assert($a == $b) }; }
#[allow(unused_macros)]
macro_rules! debug_assert_ne { ($a:expr, $b:expr $(, $($t:tt)*)?) => { crate::vx_assert($a != $b) }; }

// `vec![x; n]` resolves to an allocator stand-in whose precondition carries the allocation budget (C14):
// an allocation whose size is taken from untrusted input must be bounded by the bytes actually received.
#[allow(unused_macros)]
macro_rules! vec { () => { ::std::vec::Vec::new() }; ($e:expr; $n:expr) => { crate::vx_alloc_vec($e, $n) }; ($($x:expr),+ $(,)?) => { { let mut __vx_v = ::std::vec::Vec::new(); $( __vx_v.push($x); )+ __vx_v } }; }
