// Unit `cob_auth_patch` (C07): patch authorization rules and the Allow/Deny/Unknown dispatch.
// Real code: Patch::authorization, Patch::op_action, lookup::{revision, review} (crates/radicle/src/cob/patch.rs).
use vstd::prelude::*;
use std::collections::{BTreeMap, BTreeSet};
//@include _prelude.rs

verus! {
//@include _panic.rs

// ---- environment (declarations only) ------------------------------------------------------------------
#[derive(Clone, Copy, PartialEq, Eq, PartialOrd, Ord, Debug)] pub struct ActorId(pub [u8; 32]);
#[derive(Clone, Copy, PartialEq, Eq, PartialOrd, Ord, Debug)] pub struct Did(pub ActorId);
impl<'a> From<&'a ActorId> for Did { fn from(k: &'a ActorId) -> (r: Did) ensures r == Did(*k) { Did(*k) } }
impl<'a> vstd::std_specs::convert::FromSpecImpl<&'a ActorId> for Did { open spec fn obeys_from_spec() -> bool { true } open spec fn from_spec(k: &'a ActorId) -> Did { Did(*k) } }
impl Did { pub fn as_key(&self) -> (r: &ActorId) ensures *r == self.0 { &self.0 } }
#[derive(Clone, Copy, PartialEq, Eq, PartialOrd, Ord, Debug)] pub struct EntryId(pub [u8; 20]);
pub type CommentId = EntryId;
/// stand-ins for the amplify `Wrapper` newtypes over EntryId
#[derive(Clone, Copy, PartialEq, Eq, PartialOrd, Ord, Debug)] pub struct RevisionId(pub EntryId);
impl RevisionId { pub fn into_inner(self) -> (r: EntryId) ensures r == self.0 { self.0 } }
#[derive(Clone, Copy, PartialEq, Eq, PartialOrd, Ord, Debug)] pub struct ReviewId(pub EntryId);
impl ReviewId { pub fn into_inner(self) -> (r: EntryId) ensures r == self.0 { self.0 } }
#[derive(Clone, Copy, PartialEq, Eq, Debug)] pub struct Timestamp(pub u64);
#[derive(Clone, PartialEq, Eq, PartialOrd, Ord, Debug)] pub struct Label(pub u32);
#[derive(Clone, PartialEq, Eq, Debug)] pub struct Embed<T>(pub T);
#[derive(Clone, PartialEq, Eq, Debug)] pub struct Uri;
#[derive(Clone, PartialEq, Eq, Debug)] pub struct Reaction;
#[derive(Clone, PartialEq, Eq, Debug)] pub struct CodeLocation;
#[derive(Clone, PartialEq, Eq, Debug)] pub struct Verdict;
pub mod git { #[derive(Clone, Copy, PartialEq, Eq, Debug)] pub struct Oid(pub [u8; 20]); }
/// ASSUMED (derive on byte-array newtypes): structural equality, lawful ordering.
#[verifier::external_body]
pub proof fn ids_lawful()
    ensures <ActorId as vstd::std_specs::cmp::PartialEqSpec>::obeys_eq_spec(),
        forall|a: ActorId, b: ActorId| #[trigger] vstd::std_specs::cmp::PartialEqSpec::eq_spec(&a, &b) <==> a == b,
        <ReviewId as vstd::std_specs::cmp::PartialEqSpec>::obeys_eq_spec(),
        forall|a: ReviewId, b: ReviewId| #[trigger] vstd::std_specs::cmp::PartialEqSpec::eq_spec(&a, &b) <==> a == b,
        vstd::laws_cmp::obeys_cmp_spec::<RevisionId>(), vstd::laws_cmp::obeys_cmp_spec::<ReviewId>(), vstd::laws_cmp::obeys_cmp_spec::<ActorId>(),
{}
#[verifier::external_body]
pub fn vx_set_eq<T>(a: &BTreeSet<T>, b: &BTreeSet<T>) -> (r: bool) ensures r == (a@ == b@) { unimplemented!() }
#[derive(Clone, PartialEq, Eq, Debug)] pub struct Author { pub id: Did }
impl Author {
    pub fn id(&self) -> (r: &Did) ensures *r == self.id { &self.id }
    pub fn public_key(&self) -> (r: &ActorId) ensures *r == self.id.0 { &self.id.0 }
}
pub struct Comment<L = ()> { pub author: ActorId, pub loc: Option<L> }
impl<L> Comment<L> { pub fn author(&self) -> (r: ActorId) ensures r == self.author { self.author } }
/// discussion thread: only the author of each (non-redacted) comment matters here
pub struct Thread<T = Comment> { pub opaque: Option<T> }
impl<L> Thread<Comment<L>> {
    pub uninterp spec fn author_of(self, id: CommentId) -> Option<ActorId>;
    /// ASSUMED (cob::thread::Thread::comment): finds the non-redacted comment `id`
    #[verifier::external_body]
    pub fn comment(&self, id: &CommentId) -> (r: Option<&Comment<L>>)
        ensures match r { Some(c) => self.author_of(*id) == Some(c.author), None => self.author_of(*id) is None }
    { unimplemented!() }
}
pub mod thread { #[derive(Debug)] pub struct Error; }
pub struct Doc { pub opaque: u64 }
pub struct DocAt { pub doc: Doc }
impl std::ops::Deref for DocAt { type Target = Doc; fn deref(&self) -> (r: &Doc) ensures *r == self.doc { &self.doc } }
pub uninterp spec fn delegate(doc: Doc, did: Did) -> bool;
impl Doc {
    /// ASSUMED here, proved in unit `identity`
    #[verifier::external_body]
    pub fn is_delegate(&self, did: &Did) -> (r: bool) ensures r == delegate(*self, *did) { unimplemented!() }
}
pub trait ReadRepository {}
pub mod cob { pub struct Entry; }
#[derive(Debug)] pub enum Error { Missing(EntryId), Thread(thread::Error), NotAuthorized(ActorId, Action), Other }

//@extract crates/radicle/src/cob/common.rs
//@  item enum Authorization
//@  impl From<bool> for Authorization
//@    fn from
//@      ret r
//@      ensures
//@        r == (if value { Authorization::Allow } else { Authorization::Deny })
//@end
impl vstd::std_specs::convert::FromSpecImpl<bool> for Authorization {
    open spec fn obeys_from_spec() -> bool { true }
    open spec fn from_spec(v: bool) -> Self { if v { Authorization::Allow } else { Authorization::Deny } }
}

//@extract crates/radicle/src/cob/patch.rs
//@  item enum MergeTarget
//@    derive Debug, Default, Clone, Copy, PartialEq, Eq
//@  item enum Lifecycle
//@    derive Debug, Default, Clone, Copy, PartialEq, Eq
//@  item enum Action
//@    derive Debug, Clone, PartialEq, Eq
//@  item struct Review
//@    fields id, author, comments
//@  item struct Revision
//@    fields author, discussion, reviews
//@  item struct Patch
//@    fields author, target, labels, revisions, reviews
//@  mod lookup
//@    wrap
//@    fn revision
//@      rename_ident revision => revision_
//@      ret r
//@      ensures
//@        r is Ok ==> (match r->Ok_0 { Some(x) => Some(*x), None => None }) == patch.rev_of(*revision_)
//@      head
//@        proof { ids_lawful(); }
//@    fn review
//@      rename_ident review => review_
//@      desugar_try
//@      ret r
//@      body_sub \.ok_or_else\(\|\| Error::Missing\(review\.into_inner\(\)\)\) => .ok_or(Error::Missing(review.into_inner()))
//@      requires
//@        patch.reviews_wf()
//@      ensures
//@        r is Ok && r->Ok_0 is Some ==> patch.review_of(*review_) == Some((*r->Ok_0->Some_0.0, *r->Ok_0->Some_0.1))
//@      head
//@        proof { ids_lawful(); }
//@  impl Patch
//@    add
//@      pub open spec fn rev_of(self, id: RevisionId) -> Option<Revision> {
//@          if self.revisions@.contains_key(id) && self.revisions@[id] is Some { Some(self.revisions@[id]->Some_0) } else { None }
//@      }
//@      pub open spec fn review_of(self, id: ReviewId) -> Option<(Revision, Review)> {
//@          if self.reviews@.contains_key(id) && self.reviews@[id] is Some {
//@              let (rid, author) = self.reviews@[id]->Some_0;
//@              if self.revisions@.contains_key(rid) && self.revisions@[rid] is Some && self.revisions@[rid]->Some_0.reviews@.contains_key(author) {
//@                  Some((self.revisions@[rid]->Some_0, self.revisions@[rid]->Some_0.reviews@[author]))
//@              } else { None }
//@          } else { None }
//@      }
//@      /// representation invariant of Patch used by `lookup::review`'s debug assertion (ASSUMED to hold of every
//@      /// Patch value; its preservation by `Patch::action` is not verified here)
//@      pub open spec fn reviews_wf(self) -> bool {
//@          forall|id: ReviewId| (#[trigger] self.review_of(id)) is Some ==> self.review_of(id)->Some_0.1.id == id
//@      }
//@      /// C07, from the statement: when may a NON-delegate's action be allowed
//@      pub open spec fn may(self, action: Action, actor: ActorId) -> bool {
//@          match action {
//@              // title and lifecycle change only through the object author
//@              Action::Edit { .. } => actor == self.author.id.0,
//@              Action::Lifecycle { .. } => actor == self.author.id.0,
//@              // labels, assignees and merges change only through delegates (a no-op label is tolerated)
//@              Action::Label { labels } => labels@ == self.labels@,
//@              Action::Assign { .. } => false,
//@              Action::Merge { .. } => false,
//@              // a review is edited or redacted only by its author
//@              Action::ReviewEdit { review, .. } => self.review_of(review) is Some && self.review_of(review)->Some_0.1.author.id.0 == actor,
//@              Action::ReviewRedact { review } => self.review_of(review) is Some && self.review_of(review)->Some_0.1.author.id.0 == actor,
//@              // a comment is edited or redacted only by its author
//@              Action::ReviewCommentEdit { review, comment, .. } => self.review_of(review) is Some && self.review_of(review)->Some_0.1.comments.author_of(comment) == Some(actor),
//@              Action::ReviewCommentRedact { review, comment } => self.review_of(review) is Some && self.review_of(review)->Some_0.1.comments.author_of(comment) == Some(actor),
//@              Action::RevisionCommentEdit { revision, comment, .. } => self.rev_of(revision) is Some && self.rev_of(revision)->Some_0.discussion.author_of(comment) == Some(actor),
//@              Action::RevisionCommentRedact { revision, comment } => self.rev_of(revision) is Some && self.rev_of(revision)->Some_0.discussion.author_of(comment) == Some(actor),
//@              // a revision is edited or redacted only by its author
//@              Action::RevisionEdit { revision, .. } => self.rev_of(revision) is Some && self.rev_of(revision)->Some_0.author.id.0 == actor,
//@              Action::RevisionRedact { revision } => self.rev_of(revision) is Some && self.rev_of(revision)->Some_0.author.id.0 == actor,
//@              // not constrained by the statement: reviews, comments, reactions, new revisions, (un)resolving
//@              _ => true,
//@          }
//@      }
//@    fn target
//@    fn authorization
//@      desugar_try
//@      ret r
//@      body_sub labels == &self\.labels => vx_set_eq(labels, &self.labels)
//@      body_sub self\.author\(\)\.id\(\)\.as_key\(\) => self.author.id().as_key()
//@      requires
//@        self.reviews_wf()
//@      ensures
//@        r is Ok && r->Ok_0 == Authorization::Allow ==> delegate(*doc, Did(*actor)) || self.may(*action, *actor)
//@        delegate(*doc, Did(*actor)) ==> r is Ok && r->Ok_0 == Authorization::Allow
//@      head
//@        proof { ids_lawful(); }
//@  impl Patch
//@    add
//@      /// SINK: applies the action to the patch. Precondition = the action was authorized.
//@      #[verifier::external_body]
//@      fn action<R: ReadRepository>(&mut self, action: Action, entry: EntryId, author: ActorId, timestamp: Timestamp, concurrent: &[&cob::Entry], doc: &DocAt, repo: &R) -> (r: Result<(), Error>)
//@          requires delegate(doc.doc, Did(author)) || old(self).may(action, author)
//@      { unimplemented!() }
//@    fn op_action
//@      desugar_try
//@      ret r
//@      requires
//@        old(self).reviews_wf()
//@      ensures
//@        !(delegate(doc.doc, Did(author)) || old(self).may(action, author)) ==> *final(self) == *old(self)
//@end

//@canary
} // verus!
fn main() {}
