// Unit `sync` (C25): sync targets report success exactly when reached; the local node is never counted.
// Real code: ReplicationFactor (node/sync.rs), Target::new, Announcer::{is_target_reached, synced_with, timed_out}
// (node/sync/announce.rs), Fetcher::{is_target_reached, include_node, finish} (node/sync/fetch.rs).
use vstd::prelude::*;
use std::collections::{BTreeMap, BTreeSet, VecDeque};
use std::ops::ControlFlow;
//@include _prelude.rs

verus! {
//@include _panic.rs

// ---- environment ---------------------------------------------------------------------------------------
#[derive(Clone, Copy, PartialEq, Eq, PartialOrd, Ord, Debug)] pub struct NodeId(pub [u8; 32]);
/// ASSUMED (derive on byte-array newtype): structural equality, lawful order.
#[verifier::external_body]
pub proof fn ids_lawful()
    ensures <NodeId as vstd::std_specs::cmp::PartialEqSpec>::obeys_eq_spec(),
        forall|a: NodeId, b: NodeId| #[trigger] vstd::std_specs::cmp::PartialEqSpec::eq_spec(&a, &b) <==> a == b,
        vstd::laws_cmp::obeys_cmp_spec::<NodeId>(),
{}
pub mod time { #[derive(Clone, Copy, Debug)] pub struct Duration; }

//@extract crates/radicle/src/node/sync.rs
//@  item enum ReplicationFactor
//@  item struct ReplicationRange
//@  impl ReplicationFactor
//@    add
//@      /// invariant of the Range variant established by `range` and kept by `min`
//@      pub open spec fn wf(self) -> bool { self matches ReplicationFactor::Range(r) ==> r.lower < r.upper }
//@      pub open spec fn lo(self) -> usize { match self { ReplicationFactor::MustReach(l) => l, ReplicationFactor::Range(r) => r.lower } }
//@      pub open spec fn hi(self) -> Option<usize> { match self { ReplicationFactor::MustReach(_) => None, ReplicationFactor::Range(r) => Some(r.upper) } }
//@      /// statement: the replica count is reached at the maximum if a range is given, else at the minimum
//@      pub open spec fn reached(self, n: usize) -> bool { match self.hi() { Some(max) => n >= max, None => n >= self.lo() } }
//@    fn range
//@      ret r
//@      ensures
//@        r.wf()
//@        lower >= upper ==> r == ReplicationFactor::MustReach(lower)
//@        lower < upper ==> r.lo() == lower && r.hi() == Some(upper)
//@    fn must_reach
//@      ret r
//@      ensures
//@        r == ReplicationFactor::MustReach(factor)
//@    fn lower_bound
//@      ret r
//@      ensures
//@        r == self.lo()
//@    fn upper_bound
//@      ret r
//@      ensures
//@        r == self.hi()
//@    fn min
//@      ret r
//@      requires
//@        self.wf()
//@      ensures
//@        r.wf()
//@        self is MustReach ==> r == ReplicationFactor::MustReach(if self.lo() <= new { self.lo() } else { new })
//@        self is Range ==> r.lo() == self.lo() && (r.hi() is Some ==> r.hi()->Some_0 <= new && r.hi()->Some_0 <= self.hi()->Some_0)
//@end

pub mod announce_env {
    use vstd::prelude::*;
    use crate::*;
    #[derive(Debug, Clone)] pub enum SyncStatus { AlreadySynced, Synced { duration: time::Duration } }
    #[derive(Debug, Clone, Copy)] pub struct Progress { pub preferred: usize, pub synced: usize, pub unsynced: usize }
}
//@extract crates/radicle/src/node/sync/announce.rs
//@  inmod announce
//@    use announce_env::*
//@    item struct TargetError
//@      derive Debug
//@    item struct Target
//@    impl Target
//@      fn new
//@        ret r
//@        ensures
//@          r is Err <==> (replicas.lo() == 0 && preferred_seeds@.len() == 0)
//@          r is Ok ==> r->Ok_0.preferred_seeds == preferred_seeds && r->Ok_0.replicas == replicas
//@        head
//@          proof { ids_lawful(); }
//@      fn replicas
//@        ret r
//@        ensures
//@          *r == self.replicas
//@    item enum SuccessfulOutcome
//@    item struct SuccessCounts
//@      derive
//@    item struct Success
//@    item struct TimedOut
//@    item enum AnnouncerResult
//@    impl From<Success> for AnnouncerResult
//@      fn from
//@        ret r
//@        ensures
//@          r == AnnouncerResult::Success(s)
//@    impl From<TimedOut> for AnnouncerResult
//@      fn from
//@        ret r
//@        ensures
//@          r == AnnouncerResult::TimedOut(to)
//@    item struct NoNodes
//@    item struct Announcer
//@    impl Announcer
//@      add
//@        /// how many synced nodes are preferred seeds / how many nodes are synced at all (from the `synced` map itself)
//@        pub open spec fn n_preferred(self) -> nat { self.synced@.dom().intersect(self.target.preferred_seeds@).len() }
//@        pub open spec fn n_synced(self) -> nat { self.synced@.dom().len() }
//@        /// stand-in for Announcer::success_counts (fold closure over the synced keys): ASSUMED to return those counts
//@        #[verifier::external_body]
//@        fn success_counts(&self) -> (r: SuccessCounts) ensures r.preferred == self.n_preferred(), r.synced == self.n_synced() { unimplemented!() }
//@        #[verifier::external_body]
//@        pub fn progress(&self) -> Progress { unimplemented!() }
//@        /// C25, from the statement (announcer, per its tests `announcer_must_reach_preferred_seeds`): the target is met
//@        /// when every preferred seed is synced AND the replica count is reached
//@        pub open spec fn target_met(self) -> bool {
//@            (self.target.preferred_seeds@.len() == 0 || self.n_preferred() >= self.target.preferred_seeds@.len())
//@                && self.target.replicas.reached(self.n_synced() as usize)
//@        }
//@      fn finished
//@        ret r
//@        # the map_or closure gets its contract in place; the clone of the synced map is a stand-in (view-preserving)
//@        body_sub \|outcome\| \{ => |outcome: SuccessfulOutcome| -> (o: ControlFlow<Success, Progress>) ensures o matches ControlFlow::Break(vx_s) && vx_s.synced@ == self.synced@ {
//@        body_sub self\.synced\.clone\(\) => vx_clone_map(&self.synced)
//@        ensures
//@          r is Break <==> self.target_met()
//@          r matches ControlFlow::Break(vx_s) ==> vx_s.synced@ == self.synced@
//@      fn is_target_reached
//@        ret r
//@        body_sub \(([^()]*)\)\s*\.then_some\(([^()]*)\) => (if \1 { Some(\2) } else { None })
//@        ensures
//@          r is Some <==> self.target_met()
//@        head
//@          proof { ids_lawful(); }
//@      fn synced_with
//@        ret r
//@        ensures
//@          # the local node is never counted
//@          node == old(self).local_node ==> r is Continue && *final(self) == *old(self)
//@          # C25: every other node that reports in is counted, whether or not it was being waited on ("unknown nodes")
//@          node != old(self).local_node ==> final(self).synced@.dom() == old(self).synced@.dom().insert(node)
//@          node != old(self).local_node ==> final(self).to_sync@ == old(self).to_sync@.remove(node)
//@          final(self).target == old(self).target && final(self).local_node == old(self).local_node
//@          # ... and success is reported exactly when the target is then met
//@          node != old(self).local_node ==> (r is Break <==> final(self).target_met())
//@        head
//@          proof { ids_lawful(); }
//@      fn timed_out
//@        ret r
//@        ensures
//@          r is Success <==> self.target_met()
//@          !self.target_met() ==> r is TimedOut
//@          # the result hands back exactly the synced / still-waiting sets
//@          r matches AnnouncerResult::Success(vx_s) ==> vx_s.synced@ == self.synced@
//@          r matches AnnouncerResult::TimedOut(vx_t) ==> vx_t.synced@ == self.synced@ && vx_t.timed_out@ == self.to_sync@
//@end
impl vstd::std_specs::convert::FromSpecImpl<announce::Success> for announce::AnnouncerResult { open spec fn obeys_from_spec() -> bool { true } open spec fn from_spec(s: announce::Success) -> Self { announce::AnnouncerResult::Success(s) } }
impl vstd::std_specs::convert::FromSpecImpl<announce::TimedOut> for announce::AnnouncerResult { open spec fn obeys_from_spec() -> bool { true } open spec fn from_spec(s: announce::TimedOut) -> Self { announce::AnnouncerResult::TimedOut(s) } }

/// ASSUMED (core): Option::map_or applies the closure to the value, or returns the default
pub assume_specification<T, U, F: FnOnce(T) -> U>[Option::<T>::map_or](o: Option<T>, default: U, f: F) -> (r: U)
    requires o is Some ==> f.requires((o->Some_0,))
    ensures o is None ==> r == default, o is Some ==> f.ensures((o->Some_0,), r);
/// ASSUMED (alloc): cloning a BTreeMap keeps its view
#[verifier::external_body]
pub fn vx_clone_map<K: Clone, V: Clone>(m: &BTreeMap<K, V>) -> (r: BTreeMap<K, V>) ensures r@ == m@ { m.clone() }
/// ASSUMED (core): Option::filter keeps the value only if the predicate returned true on it
pub assume_specification<T, P: FnOnce(&T) -> bool>[Option::<T>::filter](o: Option<T>, p: P) -> (r: Option<T>)
    requires o is Some ==> p.requires((&o->Some_0,))
    ensures r is Some ==> o == r && p.ensures((&o->Some_0,), true), o is None ==> r is None;
pub mod fetch_env {
    use vstd::prelude::*;
    use crate::*;
    pub struct FetchResult;
    pub struct Candidate;
    #[derive(Clone, Debug, PartialEq, Eq)] pub struct Address;
    pub struct FetchResults { pub opaque: u8 }
    impl FetchResults {
        /// ghost: a result (success or failure) has been recorded for this node
        pub uninterp spec fn has(self, n: NodeId) -> bool;
        /// ASSUMED (node::FetchResults::get): finds the recorded result of a node
        #[verifier::external_body]
        pub fn get(&self, n: &NodeId) -> (r: Option<&FetchResult>) ensures (r is Some) == self.has(*n) { unimplemented!() }
    }
}
//@extract crates/radicle/src/node/sync/fetch.rs
//@  inmod fetch
//@    use fetch_env::*
//@    item struct TargetError
//@      derive Debug
//@    item struct Target
//@    impl Target
//@      fn new
//@        ret r
//@        ensures
//@          r is Err <==> (replicas.lo() == 0 && seeds@.len() == 0)
//@          r is Ok ==> r->Ok_0.seeds == seeds && r->Ok_0.replicas == replicas
//@        head
//@          proof { ids_lawful(); }
//@      fn replicas
//@        ret r
//@        ensures
//@          *r == self.replicas
//@    item enum SuccessfulOutcome
//@    item struct Ready
//@      derive
//@    item struct Fetcher
//@      derive
//@    impl Fetcher
//@      add
//@        pub uninterp spec fn n_preferred(self) -> usize;
//@        pub uninterp spec fn n_succeeded(self) -> usize;
//@        /// stand-in for Fetcher::success_counts (fold closure over the successful results): ASSUMED to return those counts
//@        #[verifier::external_body]
//@        fn success_counts(&self) -> (r: (usize, usize)) ensures r.0 == self.n_preferred(), r.1 == self.n_succeeded() { unimplemented!() }
//@        /// C25, from the statement (fetcher): every preferred seed fetched, OR the replica count reached
//@        pub open spec fn target_met(self) -> bool {
//@            (self.target.seeds@.len() > 0 && self.n_preferred() >= self.target.seeds@.len())
//@                || self.target.replicas.reached(self.n_succeeded())
//@        }
//@      fn is_target_reached
//@        ret r
//@        body_sub \(([^()]*)\)\s*\.then_some\(([^()]*)\) => (if \1 { Some(\2) } else { None })
//@        ensures
//@          r is Some <==> self.target_met()
//@        head
//@          proof { ids_lawful(); }
//@      fn next_fetch
//@        ret r
//@        # closures: struct/tuple-pattern parameters become a variable + `let` (Verus), and each gets its contract in place
//@        body_sub \.map\(\|Ready \{ node, addr \}\| \(node, addr\)\) => .map(|__vx_p0: Ready| -> (o: (NodeId, Address)) ensures o == (__vx_p0.node, __vx_p0.addr) { let Ready { node, addr } = __vx_p0; (node, addr) })
//@        body_sub \.filter\(\|\(node, _\)\| self\.include_node\(node\)\) => .filter(|__vx_p1: &(NodeId, Address)| -> (b: bool) ensures b == (!self.results.has((*__vx_p1).0) && (*__vx_p1).0 != self.local_node) { let (node, _) = __vx_p1; self.include_node(node) })
//@        ensures
//@          # C25: the fetcher never hands out the local node, nor a node that already has a result
//@          r is Some ==> !old(self).results.has(r->Some_0.0) && r->Some_0.0 != old(self).local_node
//@          final(self).results == old(self).results && final(self).local_node == old(self).local_node
//@      fn ready_to_fetch
//@        ensures
//@          final(self).results == old(self).results && final(self).local_node == old(self).local_node
//@      fn include_node
//@        ret r
//@        ensures
//@          # never hands out the local node, nor a node that already has a result
//@          r == (!self.results.has(*node) && *node != self.local_node)
//@        head
//@          proof { ids_lawful(); }
//@end

//@canary
} // verus!
fn main() {}
