// Unit `term_line` (C26): truncating a line of labels stays within the width, never underflows and terminates.
// Real code: Line::truncate (crates/radicle-term/src/element.rs), relative to the contract of Cell::truncate for a label
// (its string part is proved in unit `term`: the result is never wider than requested).
use vstd::prelude::*;
//@include _prelude.rs

verus! {
//@include _panic.rs

// ---- environment ------------------------------------------------------------------------------------------------
/// a styled piece of text; only its display width matters here
pub struct Label { pub opaque: u64 }
pub uninterp spec fn lw(l: Label) -> nat;
pub trait Cell {
    spec fn w(&self) -> nat;
    /// ASSUMED here, proved for `str` in unit `term` (C26): truncation never yields something wider than asked for
    fn truncate(&self, width: usize, delim: &str) -> (r: Label) ensures lw(r) <= width;
    fn width(&self) -> (r: usize) ensures r == self.w();
}
impl Cell for Label {
    open spec fn w(&self) -> nat { lw(*self) }
    #[verifier::external_body] fn truncate(&self, width: usize, delim: &str) -> (r: Label) { unimplemented!() }
    #[verifier::external_body] fn width(&self) -> (r: usize) { unimplemented!() }
}
/// sum of the widths of the labels of a line
pub open spec fn total_w(s: Seq<Label>) -> nat decreases s.len() { if s.len() == 0 { 0 } else { total_w(s.drop_last()) + lw(s.last()) } }
/// stand-in for `self.items.last().map_or(0, Cell::width)` (a trait method used as a function value)
#[verifier::external_body]
pub fn vx_last_width(items: &Vec<Label>) -> (r: usize) ensures r == (if items@.len() == 0 { 0 } else { lw(items@.last()) }) { unimplemented!() }
/// ASSUMED (Vec::last_mut): a reference to the last element, if any; nothing else changes
#[verifier::external_body]
pub fn vx_last_mut(items: &mut Vec<Label>) -> (r: Option<&mut Label>)
    ensures old(items)@.len() == 0 ==> r is None && *final(items) == *old(items),
        old(items)@.len() > 0 ==> r is Some && *r->Some_0 == old(items)@.last() && final(items)@ == old(items)@.drop_last().push(*final(r->Some_0))
{ unimplemented!() }
pub mod vx_lem {
    use vstd::prelude::*;
    use crate::*;
    pub broadcast proof fn lemma_total_push(s: Seq<Label>, x: Label) ensures #[trigger] total_w(s.push(x)) == total_w(s) + lw(x)
    { assert(s.push(x).drop_last() =~= s); }
    pub broadcast proof fn lemma_total_nonempty(s: Seq<Label>) requires s.len() > 0 ensures #[trigger] total_w(s) == total_w(s.drop_last()) + lw(s.last()) {}
}

//@extract crates/radicle-term/src/element.rs
//@  item struct Line
//@    derive Default
//@  impl Line
//@    add
//@      /// stand-in for Line::width (`self.items.iter().map(Cell::width).sum()`): ASSUMED to be the sum of the label widths,
//@      /// which fits in usize
//@      #[verifier::external_body]
//@      pub fn width(&self) -> (r: usize) ensures r == total_w(self.items@) { unimplemented!() }
//@    fn truncate
//@      body_sub self\.items\.last\(\)\.map_or\(0, Cell::width\) => vx_last_width(&self.items)
//@      body_sub self\.items\.last_mut\(\) => vx_last_mut(&mut self.items)
//@      ensures
//@        # C26: the line ends up within the width
//@        total_w(final(self).items@) <= width //[C26]
//@      loop 1
//@        invariant
//@          true
//@        # termination (C26: "never panics" includes never spinning): every round pops a label or brings the line within the width
//@        decreases
//@          (if total_w(self.items@) > width { 1nat } else { 0nat }), self.items@.len()
//@      head
//@        broadcast use vx_lem::lemma_total_push, vx_lem::lemma_total_nonempty;
//@      # ghost snapshot of the labels at the start of a round
//@      hint_after 1 let total = self\.width\(\);
//@        let ghost vx_it0 = self.items@;
//@      # after the last label was replaced by its truncation (or popped): relate the new line to the snapshot
//@      hint_after 1 delim\);\s*\}
//@        if self.items@.len() == vx_it0.len() && vx_it0.len() > 0 { assert(self.items@.drop_last() =~= vx_it0.drop_last()); assert(total_w(self.items@) == total_w(self.items@.drop_last()) + lw(self.items@.last())); }
//@end

//@canary
} // verus!
fn main() {}
