#!/bin/bash
# usage: vx/try.sh <unit> [vac]   -- expand + run verus, for development
cd /verif && python3 - "$@" <<'PY'
import sys,os
sys.path.insert(0,'vx')
import gen
u=sys.argv[1]
e=gen.Expander(u,'vx/units/%s.rs'%u, vac=len(sys.argv)>2)
txt,table=e.expand()
os.makedirs('out/'+u,exist_ok=True)
open('out/%s/unit.rs'%u,'w').write(txt)
print('rewrites',len(e.rewrites),'skipped',len(e.skipped),'fns',[f['id'] for f in e.fns])
PY
cd out/$1 && verus unit.rs --multiple-errors 5 2>&1 | head -${LINES_MAX:-80}
