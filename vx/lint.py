"""Static guards on a generated unit that the verifier itself cannot give.

ghost_on_fieldless(text): ghost state (an `uninterp spec fn` over `self` or over a parameter) on a type without fields.
All values of such a type are equal, so the function is a constant: a stand-in contract saying that it changes
(`final(self).log() == old(self).log().push(x)`) is a contradiction and everything after the call verifies vacuously,
and even without a contradiction the verifier only considers executions in which all values of the type agree.
Found the hard way (DESIGN.md section 7); the per-function vacuity check probes function heads only and misses it."""
import re


def _modpaths(t):
    """module path (tuple of names) at every `{`-nesting position: returns a function pos -> tuple"""
    marks = []  # (pos, path)
    stack = []  # (depth_at_open, name)
    depth = 0
    path = ()
    pend = None
    for m in re.finditer(r"\bmod\s+(\w+)\s*\{|[{}]", t):
        if m.group(1):
            depth += 1
            stack.append((depth, m.group(1)))
            path = path + (m.group(1),)
            marks.append((m.end(), path))
        elif m.group(0) == "{":
            depth += 1
        else:
            if stack and stack[-1][0] == depth:
                stack.pop()
                path = path[:-1]
                marks.append((m.end(), path))
            depth -= 1

    def at(pos):
        cur = ()
        for p, pa in marks:
            if p <= pos:
                cur = pa
            else:
                break
        return cur
    return at


def ghost_on_fieldless(text):
    t = re.sub(r"//[^\n]*", "", text)
    at = _modpaths(t)
    fieldless = set()   # (modpath, name)
    for pat in (r"\bstruct\s+(\w+)\s*;", r"\bstruct\s+(\w+)\s*\{\s*\}", r"\bstruct\s+(\w+)\s*\(\s*\)\s*;"):
        for m in re.finditer(pat, t):
            fieldless.add((at(m.start()), m.group(1)))
    hits = []
    if not fieldless:
        return hits

    def resolve(written, here):
        """a written type path, used at module path `here`: the field-less type it names, if any"""
        segs = [x for x in written.split("::") if x]
        if not segs or segs[0] in ("std", "core", "alloc", "vstd"):
            return None
        name, quals = segs[-1], [x for x in segs[:-1] if x not in ("crate", "super", "self")]
        cands = [(mp, n) for (mp, n) in fieldless if n == name]
        for mp, n in cands:
            if quals:
                if list(mp[-len(quals):]) == quals:
                    return (mp, n)
            elif mp == here or mp == here[:len(mp)]:
                # same module, or an enclosing one (`use super::*` / `use crate::*` are ubiquitous in the units)
                # -- unless a type of that name with fields is declared nearer
                nearer = [m2 for m2 in re.finditer(r"\b(?:struct|enum)\s+%s\b" % re.escape(name), t) if len(at(m2.start())) > len(mp) and at(m2.start()) == here[:len(at(m2.start()))]]
                if not nearer:
                    return (mp, n)
        return None

    for m in re.finditer(r"uninterp\s+spec\s+fn\s+(\w+)\s*(?:<[^>]*>)?\s*\(([^)]*)\)", t):
        here = at(m.start())
        for pm in re.finditer(r":\s*&?\s*((?:\w+::)*\w+)\b(?!\s*<)", m.group(2)):
            r = resolve(pm.group(1), here)
            if r:
                hits.append("ghost function `%s` over field-less type `%s`" % (m.group(1), "::".join(r[0] + (r[1],))))
    for m in re.finditer(r"\bimpl(?:\s*<[^>]*>)?\s+((?:\w+::)*\w+)\s*\{", t):
        r = resolve(m.group(1), at(m.start()))
        if not r:
            continue
        depth, i = 1, m.end()
        while depth and i < len(t):
            depth += (t[i] == "{") - (t[i] == "}")
            i += 1
        for f in re.findall(r"uninterp\s+spec\s+fn\s+(\w+)\s*\(\s*&?\s*self\b", t[m.end():i]):
            hits.append("ghost method `%s::%s` on a field-less type" % ("::".join(r[0] + (r[1],)), f))
    return sorted(set(hits))


if __name__ == "__main__":
    import sys
    for p in sys.argv[1:]:
        for h in ghost_on_fieldless(open(p).read()):
            print(p, h)
