"""Template expander: builds one Verus file per unit from
   (a) items extracted verbatim from /repo on every run, and
   (b) contracts / environment / lemmas kept in /verif/vx/units/<unit>.rs

Directive blocks in a template:

    //@extract <path relative to /repo>
    //@  item <kind> <name>            whole item verbatim (struct, enum, const, type, fn, use, macro_rules)
    //@    derive Clone, Copy         (optional) replace the derive list
    //@    attr <text>                (optional) extra attribute line
    //@  impl <header as in source>   container: header verbatim, selected fns only
    //@  trait <name>
    //@  mod <name>                   descend (selectors below resolve inside it)
    //@    add                        lines inserted at the top of the container body
    //@      spec fn ...
    //@    fn <name>
    //@      ret <ident>              name the return value  `-> (ident: T)`
    //@      attr <text>
    //@      requires | ensures | decreases | returns
    //@        <one clause per line at this indent; deeper lines continue the clause>
    //@      loop <n>                 n-th loop of the body in source order (1-based)
    //@        invariant | invariant_except_break | ensures | decreases
    //@      nloops <n>               expected number of loops (drift guard)
    //@      head                     text inserted as first statement (proof blocks only)
    //@      sig <regex> => <repl>    logged rewrite of the signature text only
    //@end

Everything is recorded in a segment table so that a Verus diagnostic (byte span in the
generated file) maps back to a repo file:line or to a named contract clause.
"""
import os
import re
import sys

sys.path.insert(0, os.path.dirname(os.path.abspath(__file__)))
import rlex  # noqa: E402

REPO = os.environ.get("VERIF_REPO", "/repo")

ALLOWED_DERIVES = {"Clone", "Copy", "PartialEq", "Eq", "Debug", "Default", "PartialOrd", "Ord", "Hash"}
DROP_ATTR_PREFIX = (
    "serde", "error", "from", "source", "schemars", "cfg_attr", "allow", "must_use", "inline", "track_caller",
    "doc", "deprecated", "non_exhaustive", "cfg(feature", "cfg(any(test", "cfg(test", "repr", "warn", "deny", "expect",
)


class LostAnchor(Exception):
    pass


class Seg:
    __slots__ = ("text", "origin")

    def __init__(self, text, origin):
        self.text, self.origin = text, origin


class Out:
    def __init__(self):
        self.segs = []

    def add(self, text, origin):
        if text:
            self.segs.append(Seg(text, origin))

    def render(self):
        pos = 0
        table = []
        parts = []
        for s in self.segs:
            b = s.text.encode()
            table.append((pos, pos + len(b), s.origin))
            pos += len(b)
            parts.append(s.text)
        return "".join(parts), table


def parse_directives(lines, tmpl_line0):
    """lines: list of (indent, text, tmpl_lineno). Returns tree of nodes."""
    root = {"indent": -1, "children": [], "text": "", "line": tmpl_line0}
    stack = [root]
    for ind, text, ln in lines:
        node = {"indent": ind, "text": text, "children": [], "line": ln}
        while stack and stack[-1]["indent"] >= ind:
            stack.pop()
        stack[-1]["children"].append(node)
        stack.append(node)
    return root


def clause_lines(node):
    """A block node (requires/ensures/...) -> list of (clause_text, tmpl_line)."""
    out = []
    for c in node["children"]:
        if c["text"].startswith("# ") or c["text"] == "#":
            continue
        txt = [c["text"]]

        def rec(n, depth):
            for ch in n["children"]:
                txt.append("    " * depth + ch["text"])
                rec(ch, depth + 1)

        rec(c, 1)
        out.append(("\n        ".join(txt).rstrip().rstrip(","), c["line"]))
    return out


def raw_block(node):
    out = []

    def rec(n, depth):
        for ch in n["children"]:
            out.append("    " * depth + ch["text"])
            rec(ch, depth + 1)

    rec(node, 0)
    return "\n".join(out)


def filter_attr(attr_text, override_derive=None):
    """Return replacement text for an attribute (possibly empty) and a log entry or None."""
    inner = rlex.norm(attr_text)
    m = re.match(r"#!?\[\s*(.*)\]$", inner, re.S)
    body = m.group(1) if m else inner
    if body.startswith("derive"):
        names = re.findall(r"[A-Za-z_:]+", body[len("derive"):])
        if override_derive is not None:
            keep = override_derive
        else:
            keep = [n for n in names if n.split("::")[-1] in ALLOWED_DERIVES]
        dropped = [n for n in names if n not in keep]
        new = "#[derive(%s)]" % ", ".join(keep) if keep else ""
        return new, ("derive reduced: dropped %s" % ",".join(dropped)) if dropped else None
    for p in DROP_ATTR_PREFIX:
        if body.startswith(p):
            return "", "attribute dropped: %s" % inner[:60]
    return attr_text, None


def split_sub(text):
    """`<regex> => <replacement>` (replacement may be empty)."""
    i = text.rfind(" =>")
    if i < 0:
        raise ValueError("bad rewrite directive: %r" % text)
    return text[:i].strip(), text[i + 3:].strip()


def desugar_try_once(text):
    """Rewrite the first postfix `?` in `text` (Rust code) by rustc's desugaring for Result:
         E?   =>   (match E { Ok(v) => v, Err(e) => return Err(From::from(e)) })
       Returns (new_text, True) or (text, False) if there is none. Raises ValueError on shapes it does not handle."""
    toks = rlex.code_toks(rlex.lex(text))
    qi = None
    for i, t in enumerate(toks):
        if t.kind == "punct" and t.text == "?":
            if i + 1 < len(toks) and toks[i + 1].kind == "ident" and toks[i + 1].text == "Sized":
                continue
            qi = i
            break
    if qi is None:
        return text, False
    # walk back over the postfix expression
    j = qi - 1
    start = None
    while j >= 0:
        t = toks[j]
        if t.kind == "punct" and t.text in (")", "]"):
            depth = 0
            k = j
            while k >= 0:
                if toks[k].kind == "punct" and toks[k].text in rlex.CLOSE:
                    depth += 1
                elif toks[k].kind == "punct" and toks[k].text in rlex.OPEN:
                    depth -= 1
                    if depth == 0:
                        break
                k -= 1
            if k < 0:
                raise ValueError("unbalanced before `?`")
            start = k
            j = k - 1
            # what precedes the open bracket: ident / `>` (turbofish) / `!` (macro) => part of the call; else primary (paren expr)
            if j >= 0 and toks[j].kind == "punct" and toks[j].text == ">":
                # turbofish ::<..>
                depth = 0
                while j >= 0:
                    if toks[j].text == ">":
                        depth += 1
                    elif toks[j].text == "<":
                        depth -= 1
                        if depth == 0:
                            break
                    j -= 1
                j -= 1  # now at `::`
                if toks[j].text != "::":
                    raise ValueError("unexpected generic args before `?` operand")
                j -= 1
            if j >= 0 and toks[j].kind == "punct" and toks[j].text == "!":
                j -= 1
            if j >= 0 and toks[j].kind in ("ident",) and toks[j].text not in ("return", "in", "if", "while", "match", "else", "let", "mut", "move"):
                continue  # the callee / method name: loop handles ident
            else:
                break
        elif t.kind in ("ident", "num", "str", "char"):
            if t.kind == "ident" and t.text in ("return", "in", "if", "while", "match", "else", "let", "mut", "move", "break"):
                break
            start = j
            j -= 1
            if j >= 0 and toks[j].kind == "punct" and toks[j].text in (".", "::"):
                j -= 1
                # generic arguments in the middle of a path: `Type::<A, B>::method`
                if j >= 0 and toks[j].kind == "punct" and toks[j].text == ">" and toks[j + 1].text == "::":
                    depth = 0
                    while j >= 0:
                        if toks[j].text == ">":
                            depth += 1
                        elif toks[j].text == "<":
                            depth -= 1
                            if depth == 0:
                                break
                        j -= 1
                    j -= 1
                    if j < 0 or toks[j].text != "::":
                        raise ValueError("unexpected generic args in path before `?`")
                    j -= 1
                continue
            break
        elif t.kind == "punct" and t.text == "?":
            raise ValueError("nested `?` not rewritten yet")
        elif t.kind == "punct" and t.text == "}":
            raise ValueError("block-like operand of `?` not supported")
        else:
            break
    if start is None:
        raise ValueError("could not find operand of `?`")
    a = toks[start].start
    b = toks[qi].start
    operand = text[a:b].rstrip()
    rep = "(match %s { Ok(__vx_v) => __vx_v, Err(__vx_e) => return Err(From::from(__vx_e)) })" % operand
    return text[:a] + rep + text[toks[qi].end:], True


def desugar_try(text):
    n = 0
    while True:
        text, did = desugar_try_once(text)
        if not did:
            return text, n
        n += 1
        if n > 200:
            raise ValueError("desugar_try did not terminate")


def desugar_closure_patterns(text, counter):
    """`|(a, _)| BODY` / `|S { x, y }| BODY`  =>  `|__vx_cpN| { let (a, _) = __vx_cpN; BODY }`  (Verus takes only variables
    as closure parameters). Only single-parameter closures whose parameter is a tuple or struct pattern without a type
    annotation are rewritten. Returns (new_text, number_of_rewrites)."""
    n = 0
    pos = 0
    while True:
        toks = rlex.code_toks(rlex.lex(text))
        hit = None
        for i, t in enumerate(toks):
            if t.start < pos or t.kind != "punct" or t.text != "|":
                continue
            # closure head must follow `(`, `,`, `=`, or start (not a binary `|`)
            if i > 0 and toks[i - 1].text not in ("(", ",", "=", "move", "{", ";"):
                continue
            j = i + 1
            if j >= len(toks):
                continue
            # pattern: `( ... )` or `Ident { ... }`
            if toks[j].text == "(":
                k = rlex.match_close(toks, j)
            elif toks[j].kind == "ident" and j + 1 < len(toks) and toks[j + 1].text == "{":
                k = rlex.match_close(toks, j + 1)
            else:
                continue
            if k + 1 >= len(toks) or toks[k + 1].text != "|":
                continue
            pat = text[toks[j].start:toks[k].end]
            b = k + 2
            if b >= len(toks):
                continue
            if toks[b].text == "{":
                e = rlex.match_close(toks, b)
                body = text[toks[b].start + 1:toks[e].start]
                end = toks[e].end
            else:
                depth = 0
                e = b
                while e < len(toks):
                    tx = toks[e].text
                    if toks[e].kind == "punct" and tx in rlex.OPEN:
                        depth += 1
                    elif toks[e].kind == "punct" and tx in rlex.CLOSE:
                        if depth == 0:
                            break
                        depth -= 1
                    elif toks[e].kind == "punct" and tx in (",", ";") and depth == 0:
                        break
                    e += 1
                if e >= len(toks):
                    continue
                body = text[toks[b].start:toks[e].start]
                end = toks[e].start
            hit = (toks[i].start, end, pat, body)
            break
        if hit is None:
            return text, n
        a0, a1, pat, body = hit
        name = "__vx_cp%d" % (counter + n)
        rep = "|%s| { let %s = %s; %s }" % (name, pat, name, body.strip())
        text = text[:a0] + rep + text[a1:]
        pos = a0 + len(name) + 2
        n += 1
        if n > 50:
            return text, n


class Expander:
    def __init__(self, unit_name, tmpl_path, vac=False):
        self.unit = unit_name
        self.tmpl_path = tmpl_path
        self.vac = vac
        self.out = Out()
        self.rewrites = []  # logged mechanical rewrites
        self.fns = []  # functions under contract: dict(id, file, line, has_requires, n_clauses)
        self.skipped = []
        self.files = {}
        self.vac_sites = []  # ids of injected assert(false)
        self.clauses = 0
        self.external_fns = []
        self.vis_narrowed = 0
        self.panic_macros = 0
        self.closure_pats = 0
        self.pub_fields = 0
        self.after_item = []

    def load(self, rel):
        if rel not in self.files:
            path = os.path.join(REPO, rel)
            if not os.path.exists(path):
                raise LostAnchor("file missing: %s" % rel)
            src = open(path).read()
            toks, items = rlex.parse_file(src)
            self.files[rel] = (src, toks, items)
        return self.files[rel]

    # ---- emit helpers -------------------------------------------------
    def emit_repo(self, rel, src, a, b):
        """Emit src[a:b] verbatim, except attribute filtering and closure `_` renaming."""
        text = src[a:b]
        toks = rlex.code_toks(rlex.lex(text))
        edits = []  # (start, end, replacement)
        i = 0
        while i < len(toks):
            t = toks[i]
            if t.kind == "punct" and t.text == "#" and i + 1 < len(toks) and toks[i + 1].text in ("[", "!"):
                j = i + 1
                if toks[j].text == "!":
                    j += 1
                if toks[j].text == "[":
                    k = rlex.match_close(toks, j)
                    at = text[t.start:toks[k].end]
                    new, log = filter_attr(at)
                    if new != at:
                        edits.append((t.start, toks[k].end, new))
                        self.rewrites.append("%s: %s" % (rel, log))
                    i = k + 1
                    continue
            # `assert!(..)` / `panic!(..)` -> prelude macros with proof obligations (Verus itself uses the std names internally)
            if t.kind == "ident" and t.text in ("assert", "panic") and i + 1 < len(toks) and toks[i + 1].text == "!" and (i == 0 or toks[i - 1].text not in (".", "::")):
                edits.append((t.start, t.end, "vx_%s_m" % t.text))
                self.panic_macros += 1
            if getattr(self, "alloc_budget", False) and t.kind == "ident" and t.text == "Vec" and i + 2 < len(toks) and toks[i + 1].text == "::" and toks[i + 2].text == "with_capacity":
                edits.append((t.start, toks[i + 2].end, "vx_vec_with_capacity"))
                self.rewrites.append("%s: `Vec::with_capacity` -> budgeted allocator stand-in `vx_vec_with_capacity` (C14 allocation obligation)" % rel)
            i += 1
        edits.sort()
        pos = 0
        first = len(self.out.segs)
        for s, e, r in edits:
            if s < pos:
                continue
            self.out.add(text[pos:s], ("repo", rel, a + pos))
            self.out.add(r, ("rewrite", rel, a + s))
            pos = e
        self.out.add(text[pos:], ("repo", rel, a + pos))
        # closure `_` params are alpha-renamed *inside* the segment (a few bytes of drift within the line, no split:
        # later rewrites such as `?` desugaring need the whole expression in one segment)
        for sg in self.out.segs[first:]:
            if sg.origin[0] != "repo" or "|" not in sg.text:
                continue
            t = sg.text
            out, p0 = [], 0
            for m in re.finditer(r"\|\s*_\s*\|", t):
                if self._in_code(t, m.start()):
                    out.append(t[p0:m.start()] + "|_vx%d|" % len(self.rewrites))
                    p0 = m.end()
                    self.rewrites.append("%s: closure param `_` alpha-renamed" % rel)
            if out:
                out.append(t[p0:])
                sg.text = "".join(out)

    _code_cache = {}

    def _in_code(self, text, off):
        key = id(text)
        if key not in self._code_cache:
            spans = [(t.start, t.end) for t in rlex.lex(text) if t.kind in ("str", "lcomment", "bcomment", "doc", "char")]
            self._code_cache[key] = spans
        for s, e in self._code_cache[key]:
            if s <= off < e:
                return False
        return True

    def emit_contract(self, kw, clauses, fnid):
        if not clauses:
            return
        self.out.add("\n    %s\n" % kw, ("tmpl", fnid, kw))
        for k, (c, ln) in enumerate(clauses):
            self.clauses += 1
            m = re.search(r"\s*//\s*\[[A-Z0-9, ]+\]\s*$", c)
            code = c[:m.start()] if m else c
            self.out.add("        " + code + "," + (" " + m.group(0).strip() if m else "") + "\n", ("clause", fnid, kw, k, ln, c))

    # ---- items --------------------------------------------------------
    def find(self, items, kind, name_or_header, rel):
        cands = []
        for it in items:
            if rlex.is_test_item(it):
                continue
            if kind == "impl":
                if it.kind == "impl" and re.sub(r"\s+", "", it.header[4:]) == re.sub(r"\s+", "", name_or_header):
                    cands.append(it)
            elif it.kind == kind and it.name == name_or_header:
                cands.append(it)
        if not cands:
            raise LostAnchor("%s: no `%s %s`" % (rel, kind, name_or_header))
        if len(cands) > 1 and kind != "impl":
            raise LostAnchor("%s: ambiguous `%s %s` (%d)" % (rel, kind, name_or_header, len(cands)))
        return cands

    def do_item(self, rel, src, items, node):
        words = node["text"].split(None, 2)
        kind, name = words[1], words[2].strip() if len(words) > 2 else None
        it = self.find(items, kind, name, rel)[0]
        mark0 = len(self.out.segs)
        self._do_item(rel, src, items, node, it, kind, name)
        if kind in ("struct", "enum"):
            # type visibility widened to `pub` (visibility only): Verus wants datatypes used in specs to be public
            for sg in self.out.segs[mark0:]:
                if sg.origin[0] in ("repo", "rewrite"):
                    m = re.search(r"\b(pub(\([^)]*\))?\s+)?(struct|enum)\s+%s\b" % re.escape(it.name), sg.text)
                    if m:
                        if m.group(1) is None or m.group(2):
                            sg.text = sg.text[:m.start()] + "pub " + m.group(3) + " " + it.name + sg.text[m.end():]
                            self.vis_narrowed += 0
                        break

    def _do_item(self, rel, src, items, node, it, kind, name):
        override = None
        extra_attrs = []
        for c in node["children"]:
            if c["text"].startswith("derive"):
                override = [x.strip() for x in c["text"][6:].split(",") if x.strip()]
            elif c["text"].startswith("attr "):
                extra_attrs.append(c["text"][5:])
        for a in extra_attrs:
            self.out.add(a + "\n", ("tmpl", node["line"]))
        fields = None
        for c in node["children"]:
            if c["text"].startswith("fields "):
                fields = [x.strip() for x in c["text"][7:].split(",") if x.strip()]
        if any(c["text"].strip() == "thiserror_from" for c in node["children"]):
            self.synth_from_impls(rel, src, it)
        if fields is not None:
            self.do_struct_projection(rel, src, it, fields, override)
            self.out.add("\n\n", ("tmpl", node["line"]))
            return
        rename = None
        for c in node["children"]:
            if c["text"].startswith("rename "):
                rename = c["text"].split()[1]
        if rename:
            # emit with the item's own name replaced (name clash between crates flattened into one file)
            mark = len(self.out.segs)
            self.emit_repo(rel, src, it.start, it.end)
            done = False
            for sg in self.out.segs[mark:]:
                if not done and re.search(r"\b(enum|struct)\s+%s\b" % it.name, sg.text):
                    sg.text = re.sub(r"\b(enum|struct)\s+%s\b" % it.name, r"\1 " + rename, sg.text, count=1)
                    done = True
            self.rewrites.append("%s: item %s renamed to %s in the unit (flattened namespaces)" % (rel, it.name, rename))
            self.out.add("\n\n", ("tmpl", node["line"]))
            return
        if it.kind == "struct":
            self.emit_struct_pub(rel, src, it, override)
            self.out.add("\n\n", ("tmpl", node["line"]))
            return
        if override is not None:
            # emit attrs by hand
            pos = it.start
            for at, s, e in it.attrs:
                new, log = filter_attr(at, override if rlex.norm(at).startswith("#[derive") else None)
                if log:
                    self.rewrites.append("%s: %s" % (rel, log))
                self.out.add(new + "\n", ("rewrite", rel, s))
                pos = e
            self.emit_repo(rel, src, it.kw_start, it.end)
        else:
            self.emit_repo(rel, src, it.start, it.end)
        self.out.add("\n\n", ("tmpl", node["line"]))
        for o in self.after_item:
            self.out.add(o + "\n", ("tmpl", node["line"]))
        self.after_item = []

    def emit_struct_pub(self, rel, src, it, override):
        """Emit a struct verbatim except that every field becomes `pub` (visibility only; lets contracts of
        trait methods mention fields). Logged once per unit."""
        toks = it.toks
        for at, s, e in it.attrs:
            new, log = filter_attr(at, override if (override is not None and rlex.norm(at).startswith("#[derive")) else None)
            if log:
                self.rewrites.append("%s: %s" % (rel, log))
            self.out.add(new + "\n", ("rewrite", rel, s))
        # locate field list: first '(' or '{' after name/generics at depth 0
        k = it.ti_kw
        while toks[k].text != "struct":
            k += 1
        k += 2
        if toks[k].text == "<":
            k = rlex.skip_angles(toks, k)
        while k <= it.ti_end and toks[k].text not in ("(", "{", ";"):
            if toks[k].text == "<":
                k = rlex.skip_angles(toks, k)
                continue
            k += 1
        if toks[k].text == ";":
            self.emit_repo(rel, src, it.kw_start, it.end)
            return
        close = rlex.match_close(toks, k)
        self.emit_repo(rel, src, it.kw_start, toks[k].end)
        pos = toks[k].end
        j = k + 1
        at_field_start = True
        n = 0
        while j < close:
            t = toks[j]
            if at_field_start:
                # skip attributes
                while toks[j].text == "#":
                    j = rlex.match_close(toks, j + 1) + 1
                t = toks[j]
                self.emit_repo(rel, src, pos, t.start)
                pos = t.start
                if t.text == "pub":
                    if toks[j + 1].text == "(":
                        e = rlex.match_close(toks, j + 1)
                        pos = toks[e].end
                        self.out.add("pub", ("rewrite", rel, t.start))
                        n += 1
                        j = e + 1
                    else:
                        j += 1
                else:
                    self.out.add("pub ", ("rewrite", rel, t.start))
                    n += 1
                at_field_start = False
                continue
            if t.kind == "punct" and t.text in rlex.OPEN:
                j = rlex.match_close(toks, j)
            elif t.kind == "punct" and t.text == "<":
                j = rlex.skip_angles(toks, j) - 1
            elif t.kind == "punct" and t.text == ",":
                at_field_start = True
            j += 1
        self.emit_repo(rel, src, pos, it.end)
        if n:
            self.pub_fields += n

    def synth_from_impls(self, rel, src, it):
        """Mechanical simulation of thiserror's `#[from]`: impl From<T> for E { fn from(e) -> E::V(e) }."""
        toks = it.toks
        k = it.ti_open + 1
        out = []
        while k < it.ti_end:
            # variant: attrs* Name ( ... ) | { ... } | nothing  ,
            while toks[k].text == "#":
                k = rlex.match_close(toks, k + 1) + 1
            if k >= it.ti_end:
                break
            name = toks[k].text
            k += 1
            if k < it.ti_end and toks[k].text in ("(", "{"):
                close = rlex.match_close(toks, k)
                inner = toks[k + 1:close]
                txt = [t.text for t in inner]
                if "from" in txt and "#" in txt:
                    # find `# [ from ]` then the type up to ',' or end
                    j = 0
                    while j < len(inner):
                        if inner[j].text == "#" and inner[j + 1].text == "[" and inner[j + 2].text == "from":
                            j += 4
                            fname = None
                            if toks[k].text == "{":
                                fname = inner[j].text
                                j += 2  # name :
                            ts = inner[j].start
                            e = j
                            depth = 0
                            while e < len(inner):
                                tt = inner[e].text
                                if tt in ("<", "(", "["):
                                    depth += 1
                                elif tt in (">", ")", "]"):
                                    depth -= 1
                                elif tt == "," and depth == 0:
                                    break
                                e += 1
                            ty = src[ts:inner[e - 1].end]
                            cons = "%s::%s(e)" % (it.name, name) if fname is None else "%s::%s { %s: e }" % (it.name, name, fname)
                            out.append("impl From<%s> for %s { fn from(e: %s) -> Self { %s } }" % (ty, it.name, ty, cons))
                            out.append("impl vstd::std_specs::convert::FromSpecImpl<%s> for %s { open spec fn obeys_from_spec() -> bool { true } open spec fn from_spec(e: %s) -> Self { %s } }" % (ty, it.name, ty, cons))
                            break
                        j += 1
                k = close + 1
            # skip to after next comma at depth 0
            while k < it.ti_end and toks[k].text != ",":
                if toks[k].text in rlex.OPEN:
                    k = rlex.match_close(toks, k)
                k += 1
            k += 1
        for o in out:
            self.after_item.append(o)
            self.rewrites.append("%s: thiserror #[from] simulated: %s" % (rel, o[:80]))

    def do_struct_projection(self, rel, src, it, fields, override):
        """Emit a struct keeping only the named fields (each verbatim). Logged as a rewrite."""
        toks = it.toks
        if it.ti_open is None:
            raise LostAnchor("%s: struct %s has no named fields" % (rel, it.name))
        for at, s, e in it.attrs:
            # a projected struct keeps no derives unless the unit lists them (field types are stand-ins)
            new, log = filter_attr(at, (override or []) if rlex.norm(at).startswith("#[derive") else None)
            self.out.add(new + "\n", ("rewrite", rel, s))
        self.emit_repo(rel, src, it.kw_start, toks[it.ti_open].end)
        self.out.add("\n", ("tmpl", it.name))
        # split fields at depth-0 commas
        k = it.ti_open + 1
        start = k
        found = set()
        dropped = []
        while k <= it.ti_end:
            t = toks[k]
            if k == it.ti_end or (t.kind == "punct" and t.text == ","):
                if k > start:
                    # field tokens start..k-1 ; name = ident before ':' at depth 0 (skip attrs / pub(...))
                    j = start
                    while toks[j].text == "#":
                        j = rlex.match_close(toks, j + 1) + 1
                    if toks[j].text == "pub":
                        j += 1
                        if toks[j].text == "(":
                            j = rlex.match_close(toks, j) + 1
                    name = toks[j].text
                    if name in fields:
                        found.add(name)
                        self.out.add("    pub ", ("tmpl", it.name))
                        self.emit_repo(rel, src, toks[j].start, toks[k - 1].end)
                        self.out.add(",\n", ("tmpl", it.name))
                    else:
                        dropped.append(name)
                start = k + 1
            elif t.kind == "punct" and t.text in rlex.OPEN:
                k = rlex.match_close(toks, k)
            elif t.kind == "punct" and t.text == "<":
                k = rlex.skip_angles(toks, k) - 1
            k += 1
        missing = set(fields) - found
        if missing:
            raise LostAnchor("%s: struct %s lost field(s) %s" % (rel, it.name, ",".join(sorted(missing))))
        self.out.add("}", ("repo", rel, toks[it.ti_end].start))
        self.rewrites.append("%s: struct %s projected to fields {%s}; dropped {%s}" % (rel, it.name, ",".join(fields), ",".join(dropped)))

    def do_fn(self, rel, src, it, node, container):
        """Emit fn item `it` with contracts from node (node may be None => verbatim)."""
        an = rlex.FnAnatomy(it)
        fnid = getattr(self, "_modprefix", "") + ("%s::%s" % (container, it.name) if container else it.name)
        spec = {"requires": [], "ensures": [], "decreases": [], "returns": [], "loops": {}, "head": None, "ret": None, "attrs": [], "sigsubs": [], "nloops": None, "bodysubs": []}
        for c in (node["children"] if node else []):
            w = c["text"].split(None, 1)
            k = w[0]
            if k in ("requires", "ensures", "decreases", "returns"):
                spec[k] += clause_lines(c)
            elif k == "ret":
                spec["ret"] = w[1].strip()
            elif k == "attr":
                spec["attrs"].append(w[1])
            elif k == "head":
                spec["head"] = (spec["head"] + "\n" if spec["head"] else "") + raw_block(c)
            elif k == "touch":
                # touch <spec expr>: mention a ghost function in the body so that its definition is in the solver's context
                # (Verus 0.2026.09.13 sometimes prunes the per-impl definition of a trait's spec fn from the query of that
                # impl's own exec fn; a mention in the body makes it reachable). Adds no assumption.
                spec["head"] = (spec["head"] + "\n" if spec["head"] else "") + "proof { let _vx_touch = %s; }" % w[1].strip()
            elif k == "nloops":
                spec["nloops"] = int(w[1])
            elif k == "sig":
                a, b = split_sub(w[1])
                spec["sigsubs"].append((a.strip(), b.strip()))
            elif k in ("body_sub", "body_sub?"):
                a, b = split_sub(w[1])
                # rewrites are applied where they match; where the text is gone the code is checked as it is
                spec["bodysubs"].append((a.strip(), b.strip(), True))
            elif k == "desugar_try":
                spec["desugar_try"] = True
            elif k == "desugar_for":
                spec["desugar_for"] = True
            elif k in ("hint", "hint?", "hint_after"):
                # hint <n> <regex>   + block: proof text (asserts only) spliced before the n-th match of regex in the body
                # `hint?`: skipped when the anchor is gone (the code is then checked without it)
                parts = w[1].split(None, 1)
                spec.setdefault("hints", []).append((int(parts[0]), parts[1].strip(), raw_block(c), k == "hint?", k == "hint_after"))
            elif k == "rename_ident":
                a, b = split_sub(w[1])
                spec.setdefault("renames", []).append((a, b))
            elif k == "lift_closure":
                # lift_closure <name> <anchor regex>  + children: sig <params and return>, requires/ensures blocks.
                # The closure literal that follows the anchor is lifted, body verbatim, into a named fn next to this one
                # (so that it can carry a contract) and the literal is replaced by the fn's path.
                parts = w[1].split(None, 1)
                lc = {"name": parts[0], "anchor": parts[1].strip(), "sig": None, "requires": [], "ensures": [], "attrs": []}
                for cc in c["children"]:
                    w2 = cc["text"].split(None, 1)
                    if w2[0] == "sig":
                        lc["sig"] = w2[1]
                    elif w2[0] == "attr":
                        lc["attrs"].append(w2[1])
                    elif w2[0] in ("requires", "ensures"):
                        lc[w2[0]] += clause_lines(cc)
                    elif w2[0] == "head":
                        lc["head"] = raw_block(cc)
                spec.setdefault("lifts", []).append(lc)
            elif k == "twin":
                # twin <name>  + children: sig <params and return>, self_is <Type>
                # The body of this fn is emitted a second time, verbatim (`Self` spelled out), as a free fn <name> carrying the
                # SAME ensures/requires text, after the enclosing impl block. For trait-impl fns whose own contract Verus cannot
                # discharge in place (external_body: dependency cycle between `impl TryFrom` and its `TryFromSpecImpl`), the
                # twin is where the real body is verified against the contract that callers assume.
                tw = {"name": w[1].strip(), "sig": None, "self": None}
                for cc in c["children"]:
                    w2 = cc["text"].split(None, 1)
                    if w2[0] == "sig":
                        tw["sig"] = w2[1]
                    elif w2[0] == "self_is":
                        tw["self"] = w2[1].strip()
                    else:
                        raise ValueError("%s:%d unknown twin directive %r" % (self.tmpl_path, cc["line"], cc["text"]))
                spec["twin"] = tw
            elif k == "loop":
                n = int(w[1])
                d = spec["loops"].setdefault(n, {})
                for cc in c["children"]:
                    d.setdefault(cc["text"].split()[0], []).extend(clause_lines(cc))
            else:
                raise ValueError("%s:%d unknown fn directive %r" % (self.tmpl_path, c["line"], c["text"]))
        if an.self_kind == "mut self" and not any(re.search(a, src[it.start:an.sig_end]) and not re.search(r"(?<![&\w])\s*mut self\b", re.sub(a, b, src[it.start:an.sig_end]).replace("&mut self", "&MUTSELF")) for a, b in spec["sigsubs"]):
            self.skipped.append("%s (%s): `mut self` receiver unsupported by Verus" % (fnid, rel))
            return
        line = src.count("\n", 0, it.kw_start) + 1
        fn_seg0 = len(self.out.segs)
        # attributes of the fn (filtered) + extra attrs
        for a in spec["attrs"]:
            self.out.add("    " + a + "\n", ("tmpl", fnid, "attr"))
        # signature
        sig_a = it.start
        kw = it.toks[it.ti_kw]
        if kw.text == "pub" and it.toks[it.ti_kw + 1].text == "(" and it.toks[it.ti_kw + 2].text != "crate":
            # pub(super) / pub(in path): there are no parent modules in the flattened unit
            close = rlex.match_close(it.toks, it.ti_kw + 1)
            self.emit_repo(rel, src, it.start, kw.start)
            self.out.add("pub(crate)", ("rewrite", rel, kw.start))
            sig_a = it.toks[close].end
            self.vis_narrowed += 1
        elif kw.text == "pub" and it.toks[it.ti_kw + 1].text != "(":
            # visibility narrowed (pub -> pub(crate)): no run-time meaning; lets contracts mention private fields
            self.emit_repo(rel, src, it.start, kw.start)
            self.out.add("pub(crate)", ("rewrite", rel, kw.start))
            sig_a = kw.end
            self.vis_narrowed += 1
        if an.ret and spec["ret"]:
            self.emit_repo(rel, src, sig_a, an.ret[0])
            self.out.add("(%s: " % spec["ret"], ("rewrite", rel, an.ret[0]))
            self.emit_repo(rel, src, an.ret[0], an.ret[1])
            self.out.add(")", ("rewrite", rel, an.ret[1]))
            sig_a = an.ret[1]
        if spec["sigsubs"]:
            # apply to the remaining signature text (before body)
            seg = src[sig_a:an.sig_end]
            full = src[it.start:an.sig_end]
            for a, b in spec["sigsubs"]:
                if not re.search(a, full):
                    raise LostAnchor("%s: sig rewrite %r does not match %s" % (rel, a, fnid))
            # simple approach: re-emit whole signature with substitutions (drop earlier emission)
            # -> rebuild: remove segments emitted for this signature
            while self.out.segs and self.out.segs[-1].origin[0] in ("repo", "rewrite") and self.out.segs[-1].origin[1] == rel and self.out.segs[-1].origin[2] >= it.start:
                self.out.segs.pop()
            txt = src[it.start:an.sig_end]
            if an.ret and spec["ret"]:
                txt = src[it.start:an.ret[0]] + "(%s: " % spec["ret"] + src[an.ret[0]:an.ret[1]] + ")" + src[an.ret[1]:an.sig_end]
            for a, b in spec["sigsubs"]:
                txt = re.sub(a, b, txt)
                self.rewrites.append("%s: signature of %s rewritten /%s/ => %s" % (rel, fnid, a, b))
            # attribute filtering on the rebuilt text
            txt = re.sub(r"#\[(allow|inline|must_use|doc|track_caller)[^\]]*\]\s*", "", txt)
            txt = re.sub(r"^(\s*)pub fn", r"\1pub(crate) fn", txt)
            txt = re.sub(r"\bpub\((super|in [^)]*)\)", "pub(crate)", txt)
            self.out.add(txt, ("rewrite", rel, it.start))
        else:
            self.emit_repo(rel, src, sig_a, an.sig_end)
        self.emit_contract("requires", spec["requires"], fnid)
        self.emit_contract("ensures", spec["ensures"], fnid)
        self.emit_contract("returns", spec["returns"], fnid)
        self.emit_contract("decreases", spec["decreases"], fnid)
        ncl = sum(len(spec[k]) for k in ("requires", "ensures", "decreases", "returns"))
        if not an.has_body:
            self.out.add(";\n", ("repo", rel, an.sig_end))
            self.fns.append({"id": fnid, "file": rel, "line": line, "body": False, "requires": len(spec["requires"]), "ensures": len(spec["ensures"])})
            return
        loops = an.loops()
        if spec["nloops"] is not None and spec["nloops"] != len(loops):
            raise LostAnchor("%s: %s has %d loops, contract expects %d" % (rel, fnid, len(loops), spec["nloops"]))
        for n in spec["loops"]:
            if n > len(loops):
                raise LostAnchor("%s: %s has %d loops, contract names loop %d" % (rel, fnid, len(loops), n))
        toks = it.toks
        pos = an.body_open
        body_seg0 = len(self.out.segs)
        # body open brace
        self.emit_repo(rel, src, pos, pos + 1)
        pos += 1
        is_ext = any("external" in a for a in spec["attrs"]) or getattr(self, "_container_external", False)
        if self.vac and not is_ext:
            self.out.add(" proof { assert(false); } ", ("vac", fnid))
            self.vac_sites.append(fnid)
        if is_ext:
            self.external_fns.append(fnid)
        if spec["head"]:
            self.out.add("\n" + spec["head"] + "\n", ("tmpl", fnid, "head"))
        for n, (kw, bo) in enumerate(loops, 1):
            if spec.get("desugar_for") and toks[kw].text == "for":
                # rustc's desugaring of `for PAT in EXPR BODY` (with the stand-in iterator's inherent `next`):
                #   let mut it = EXPR; while let Some(PAT) = it.next() BODY
                m = kw + 1
                while toks[m].text != "in":
                    if toks[m].kind == "punct" and toks[m].text in rlex.OPEN:
                        m = rlex.match_close(toks, m)
                    m += 1
                pat = src[toks[kw].end:toks[m].start].strip()
                expr = src[toks[m].end:toks[bo].start].strip()
                self.emit_repo(rel, src, pos, toks[kw].start)
                self.out.add("let mut __vx_it%d = %s; while let Some(%s) = __vx_it%d.next() " % (n, expr, pat, n), ("rewrite", rel, toks[kw].start))
                self.rewrites.append("%s: `for %s in ..` in %s desugared to `let mut it = ..; while let Some(..) = it.next()`" % (rel, pat, fnid))
                pos = toks[bo].start
            if n in spec["loops"]:
                cut = toks[bo].start
                self.emit_repo(rel, src, pos, cut)
                for kwd in ("invariant_except_break", "invariant", "ensures", "decreases"):
                    if kwd in spec["loops"][n]:
                        self.emit_contract(kwd, spec["loops"][n][kwd], "%s/loop%d" % (fnid, n))
                        ncl += len(spec["loops"][n][kwd])
                pos = cut
        self.emit_repo(rel, src, pos, it.end)
        for lc in spec.get("lifts", []):
            done = False
            for si in range(body_seg0, len(self.out.segs)):
                sg = self.out.segs[si]
                if sg.origin[0] != "repo":
                    continue
                m = re.search(lc["anchor"], sg.text)
                if not m:
                    continue
                t = sg.text
                a0 = m.end()
                while a0 < len(t) and t[a0].isspace():
                    a0 += 1
                if a0 >= len(t) or t[a0] != "|":
                    raise LostAnchor("%s: no closure literal after /%s/ in %s" % (rel, lc["anchor"], fnid))
                p1 = t.index("|", a0 + 1)
                b0 = p1 + 1
                while t[b0].isspace():
                    b0 += 1
                if t[b0] != "{":
                    raise LostAnchor("%s: closure after /%s/ in %s has no block body" % (rel, lc["anchor"], fnid))
                toks2 = rlex.code_toks(rlex.lex(t[b0:]))
                if toks2[0].text != "{":
                    raise LostAnchor("%s: closure body lexing failed in %s" % (rel, fnid))
                b1 = b0 + toks2[rlex.match_close(toks2, 0)].end
                base = sg.origin[2]
                path = ("Self::" if container else "") + lc["name"]
                lifted_id = "%s::%s" % (fnid, lc["name"])
                # (the path is appended to the preceding segment so that later body rewrites can match across it)
                newsegs = [Seg(t[:a0] + path, ("repo", rel, base)), Seg(t[b1:], ("repo", rel, base + b1))]
                self.out.segs[si:si + 1] = [x for x in newsegs if x.text]
                # the lifted fn goes after the outer fn
                self._pending_lifts = getattr(self, "_pending_lifts", [])
                lifted_body = t[b0:b1]
                # site rewrites of the enclosing fn also apply inside the lifted body
                for a_, b_, _opt in spec["bodysubs"]:
                    lifted_body = re.sub(a_, b_, lifted_body)
                # closures inside the lifted body whose parameter is a pattern
                if re.search(r"\|\s*(\(|[A-Z]\w*\s*\{)", lifted_body):
                    try:
                        lifted_body, ncp = desugar_closure_patterns(lifted_body, self.closure_pats)
                        self.closure_pats += ncp
                    except Exception:
                        pass
                self._pending_lifts.append((lc, lifted_id, rel, lifted_body, base + b0, src.count("\n", 0, base + a0) + 1))
                self.rewrites.append("%s: closure `%s` in %s lifted (body verbatim) to fn %s so that it can carry a contract" % (rel, t[a0:p1 + 1], fnid, lc["name"]))
                done = True
                break
            if not done:
                raise LostAnchor("%s: lift_closure anchor /%s/ not found in %s" % (rel, lc["anchor"], fnid))
        if spec["bodysubs"]:
            for a, b, optional in spec["bodysubs"]:
                hit = 0
                for sg in self.out.segs[body_seg0:]:
                    if sg.origin[0] in ("repo", "rewrite") and re.search(a, sg.text):
                        sg.text, n = re.subn(a, b, sg.text)
                        hit += n
                if not hit and optional:
                    continue
                if not hit:
                    raise LostAnchor("%s: body rewrite %r does not match in %s" % (rel, a, fnid))
                self.rewrites.append("%s: body of %s rewritten /%s/ => %s (%d site%s)" % (rel, fnid, a, b, hit, "" if hit == 1 else "s"))
        if spec.get("desugar_try"):
            cnt = 0
            for sg in self.out.segs[body_seg0:]:
                if sg.origin[0] == "repo" and "?" in sg.text:
                    try:
                        sg.text, n = desugar_try(sg.text)
                    except ValueError as e:
                        raise LostAnchor("%s: cannot desugar `?` in %s: %s" % (rel, fnid, e))
                    cnt += n
            self.rewrites.append("%s: %d `?` in %s desugared to match/return Err(From::from(e)) (rustc's own desugaring for Result)" % (rel, cnt, fnid))
        for nth, pat, block, hint_optional, hint_after in spec.get("hints", []):
            if re.search(r"\b(assume|admit)\s*\(", block):
                raise ValueError("%s: hint for %s contains assume/admit" % (self.tmpl_path, fnid))
            seen = 0
            done = False
            for sg in self.out.segs[body_seg0:]:
                if sg.origin[0] not in ("repo", "rewrite"):
                    continue
                for m in re.finditer(pat, sg.text):
                    seen += 1
                    if seen == nth:
                        at = m.end() if hint_after else m.start()
                        flat = block.replace("\n", " ").strip()
                        if re.match(r"let ghost \w+ = [^;]*;$", flat):
                            # a ghost snapshot (`let ghost x = <spec expr>;`) must live in the enclosing scope, not in a proof block
                            sg.text = sg.text[:at] + " " + flat + " " + sg.text[at:]
                        else:
                            sg.text = sg.text[:at] + " proof { " + flat + " } " + sg.text[at:]
                        done = True
                        break
                if done:
                    break
            if not done and hint_optional:
                continue
            if not done:
                # the anchor is gone: the code is checked without the hint (may then fail to verify => undecided? no: a
                # missing hint can only make a proof fail, which would be reported as a violation; so refuse instead)
                raise LostAnchor("%s: proof hint anchor /%s/ #%d not found in %s" % (rel, pat, nth, fnid))
            self.rewrites.append("%s: proof hint (asserts only) spliced before match #%d of /%s/ in %s" % (rel, nth, pat, fnid))
        # closures whose parameter is a pattern (after all site-specific rewrites, which may already have handled them)
        for sg in self.out.segs[body_seg0:]:
            if sg.origin[0] in ("repo", "rewrite") and "|" in sg.text and re.search(r"\|\s*(\(|[A-Z]\w*\s*\{)", sg.text):
                try:
                    sg.text, ncp = desugar_closure_patterns(sg.text, self.closure_pats)
                except Exception:
                    ncp = 0
                if ncp:
                    self.closure_pats += ncp
                    self.rewrites.append("%s: %d closure(s) with a pattern parameter in %s rewritten `|PAT| BODY` => `|p| { let PAT = p; BODY }` (Verus takes only variables as closure parameters)" % (rel, ncp, fnid))
        for a, b in spec.get("renames", []):
            # alpha-renaming of a local identifier (all occurrences that are not field/method/path segments)
            n = 0
            for sg in self.out.segs[fn_seg0:]:
                if sg.origin[0] in ("repo", "rewrite") and re.search(r"\b%s\b" % re.escape(a), sg.text):
                    toks2 = rlex.lex(sg.text)
                    out2, pos2 = [], 0
                    prev = None
                    for t2 in toks2:
                        if t2.kind in rlex.TRIVIA:
                            continue
                        if t2.kind == "ident" and t2.text == a and not (prev is not None and prev.text in (".", "::", "fn")):
                            out2.append(sg.text[pos2:t2.start] + b)
                            pos2 = t2.end
                            n += 1
                        prev = t2
                    out2.append(sg.text[pos2:])
                    sg.text = "".join(out2)
            self.rewrites.append("%s: identifier `%s` alpha-renamed to `%s` in %s (%d occurrences; Verus cannot take a parameter named like its function)" % (rel, a, b, fnid, n))
        self.out.add("\n\n", ("tmpl", fnid))
        self.fns.append({"id": fnid, "file": rel, "line": line, "body": True, "requires": len(spec["requires"]), "ensures": len(spec["ensures"]), "clauses": ncl, "loops": len(loops)})
        if spec.get("twin"):
            self._pending_twins = getattr(self, "_pending_twins", [])
            self._pending_twins.append((spec["twin"], fnid, rel, src, an.body_open, it.end, line, spec["requires"], spec["ensures"]))
        for lc, lifted_id, lrel, body, boff, lline in getattr(self, "_pending_lifts", []):
            for a in lc["attrs"]:
                self.out.add("    " + a + "\n", ("tmpl", lifted_id, "attr"))
            self.out.add("    fn %s%s" % (lc["name"], lc["sig"]), ("tmpl", lifted_id, "sig"))
            self.emit_contract("requires", lc["requires"], lifted_id)
            self.emit_contract("ensures", lc["ensures"], lifted_id)
            self.out.add("{ ", ("tmpl", lifted_id))
            if self.vac:
                self.out.add("proof { assert(false); } ", ("vac", lifted_id))
                self.vac_sites.append(lifted_id)
            if lc.get("head"):
                self.out.add(lc["head"] + "\n", ("tmpl", lifted_id, "head"))
            self.out.add(body, ("repo", lrel, boff))
            self.out.add(" }\n\n", ("tmpl", lifted_id))
            self.fns.append({"id": lifted_id, "file": lrel, "line": lline, "body": True, "requires": len(lc["requires"]), "ensures": len(lc["ensures"]), "clauses": len(lc["requires"]) + len(lc["ensures"]), "loops": 0})
        self._pending_lifts = []

    def flush_twins(self):
        for tw, fnid, rel, src, b_open, b_end, line, req, ens in getattr(self, "_pending_twins", []):
            tid = "%s [twin %s]" % (fnid, tw["name"])
            self.out.add("fn %s%s" % (tw["name"], tw["sig"]), ("tmpl", tid, "sig"))
            self.emit_contract("requires", req, tid)
            self.emit_contract("ensures", ens, tid)
            self.out.add("{", ("repo", rel, b_open))
            if self.vac:
                self.out.add(" proof { assert(false); } ", ("vac", tid))
                self.vac_sites.append(tid)
            pos = b_open + 1
            nself = 0
            if tw["self"]:
                for t in rlex.code_toks(rlex.lex(src[b_open + 1:b_end])):
                    if t.kind == "ident" and t.text == "Self":
                        a0 = b_open + 1 + t.start
                        self.emit_repo(rel, src, pos, a0)
                        self.out.add(tw["self"], ("rewrite", rel, a0))
                        pos = a0 + 4
                        nself += 1
            self.emit_repo(rel, src, pos, b_end)
            self.out.add("\n\n", ("tmpl", tid))
            self.rewrites.append("%s: body of %s emitted a second time, verbatim (%d `Self` spelled out as %s), as free fn %s with the same contract text" % (rel, fnid, nself, tw["self"], tw["name"]))
            self.fns.append({"id": tid, "file": rel, "line": line, "body": True, "requires": len(req), "ensures": len(ens), "clauses": len(req) + len(ens), "loops": 0})
        self._pending_twins = []

    def do_container(self, rel, src, items, node):
        words = node["text"].split(None, 1)
        kind = words[0]
        sel = words[1].strip()
        if kind == "trait":
            cands = self.find(items, "trait", sel, rel)
        else:
            cands = self.find(items, "impl", sel, rel)
        wanted = {}
        add = None
        keep_all = False
        drop = set()
        header_sub = []
        cattrs = []
        const_subs = []
        for c in node["children"]:
            w = c["text"].split(None, 1)
            if w[0] == "fn":
                wanted[w[1].strip()] = c
            elif w[0] == "add":
                add = raw_block(c)
            elif w[0] == "all":
                keep_all = True
            elif w[0] == "drop":
                drop |= {x.strip() for x in w[1].split(",")}
            elif w[0] == "const_sub":
                a, b = split_sub(w[1])
                const_subs.append((a.strip(), b.strip()))
            elif w[0] == "attr":
                cattrs.append(w[1])
            elif w[0] == "header":
                a, b = split_sub(w[1])
                header_sub.append((a.strip(), b.strip()))
            else:
                raise ValueError("%s:%d unknown container directive %r" % (self.tmpl_path, c["line"], c["text"]))
        found = set()
        used_subs = set()
        # several impl blocks may share a header (e.g. two `impl Foo {` blocks): search all
        emitted_header = False
        for it in cands:
            kids = it.children()
            names = {k.name for k in kids if k.kind == "fn"}
            if not keep_all and not (names & set(wanted)) and len(cands) > 1 and not (add and not wanted and not emitted_header):
                continue
            cname = rlex.norm(it.header)
            notsel = []
            for a in cattrs:
                self.out.add(a + "\n", ("tmpl", cname, "attr"))
            self._container_external = any("external" in a for a in cattrs)
            # header (attrs filtered)
            if header_sub:
                h = src[it.kw_start:it.toks[it.ti_open].start]
                for a, b in header_sub:
                    if not re.search(a, h):
                        raise LostAnchor("%s: header rewrite %r does not match `%s`" % (rel, a, cname))
                    h = re.sub(a, b, h)
                    self.rewrites.append("%s: header of `%s` rewritten /%s/ => %s" % (rel, cname, a, b))
                self.out.add(h, ("rewrite", rel, it.kw_start))
            else:
                self.emit_repo(rel, src, it.start, it.toks[it.ti_open].start)
            self.out.add("{\n", ("repo", rel, it.toks[it.ti_open].start))
            if add and not emitted_header:
                self.out.add(add + "\n", ("tmpl", cname, "add"))
            emitted_header = True
            for k in kids:
                if k.kind == "fn":
                    if k.name in wanted:
                        found.add(k.name)
                        self.out.add("    ", ("tmpl", cname))
                        self.do_fn(rel, src, k, wanted[k.name], cname)
                    elif keep_all and k.name not in drop:
                        self.out.add("    ", ("tmpl", cname))
                        self.do_fn(rel, src, k, None, cname)
                    else:
                        notsel.append(k.name)
                elif k.kind in ("type", "const") and k.name not in drop and any(re.search(a, src[k.start:k.end]) for a, _ in const_subs):
                    txt = src[k.toks[k.ti_kw].start:k.end]
                    txt = re.sub(r"^pub(\([a-z]+\))?\s+", "", txt)
                    for a, b in const_subs:
                        if re.search(a, txt):
                            txt = re.sub(a, b, txt)
                            self.rewrites.append("%s: const %s rewritten /%s/ => %s" % (rel, k.name, a, b))
                            used_subs.add(a)
                    self.out.add("    " + txt + "\n", ("rewrite", rel, k.start))
                elif k.kind in ("type", "const") and k.name not in drop:
                    self.out.add("    ", ("tmpl", cname))
                    kk = k.toks[k.ti_kw]
                    if kk.text == "pub" and k.toks[k.ti_kw + 1].text != "(":
                        self.emit_repo(rel, src, k.start, kk.start)
                        self.out.add("" if k.kind == "const" else "pub(crate)", ("rewrite", rel, kk.start))
                        self.emit_repo(rel, src, kk.end, k.end)
                        self.vis_narrowed += 1
                    else:
                        self.emit_repo(rel, src, k.start, k.end)
                    self.out.add("\n", ("tmpl", cname))
            self.out.add("}\n\n", ("repo", rel, it.toks[it.ti_end].start))
            self._container_external = False
            self.flush_twins()
            if notsel:
                self.skipped.append("%s (%s): %d other fns of this block not extracted in this unit" % (cname, rel, len(notsel)))
        for a, _ in const_subs:
            if a not in used_subs:
                raise LostAnchor("%s: const rewrite %r does not match in `%s`" % (rel, a, sel))
        missing = set(wanted) - found
        if missing:
            raise LostAnchor("%s: `%s` has no fn %s" % (rel, sel, ",".join(sorted(missing))))

    def do_extract(self, rel, root):
        src, toks, items = self.load(rel)
        self._walk_nodes(rel, src, items, root["children"])

    def _walk_nodes(self, rel, src, items, nodes):
        for node in nodes:
            w = node["text"].split(None, 1)
            if w[0] == "item":
                self.do_item(rel, src, items, node)
            elif w[0] in ("impl", "trait"):
                self.do_container(rel, src, items, node)
            elif w[0] == "fn":
                it = self.find(items, "fn", w[1].strip(), rel)[0]
                self.do_fn(rel, src, it, node, None)
            elif w[0] == "inmod":
                # wrap the extracted items in a module of the unit (keeps names of different crates/modules apart)
                self.out.add("pub mod %s {\n    use super::*;\n" % w[1].strip(), ("tmpl", node["line"]))
                uses = [c for c in node["children"] if c["text"].startswith("use ")]
                for c in uses:
                    self.out.add("    " + c["text"].rstrip(";") + ";\n", ("tmpl", c["line"]))
                saved = getattr(self, "_modprefix", "")
                self._modprefix = saved + w[1].strip() + "::"
                self._walk_nodes(rel, src, items, [c for c in node["children"] if c not in uses])
                self._modprefix = saved
                self.out.add("}\n", ("tmpl", node["line"]))
            elif w[0] == "mod":
                it = self.find(items, "mod", w[1].strip(), rel)[0]
                kids = [c for c in node["children"] if c["text"].strip() != "wrap"]
                wrap = len(kids) != len(node["children"])
                if wrap:
                    self.out.add("pub mod %s {\n    use super::*;\n" % it.name, ("tmpl", node["line"]))
                saved = getattr(self, "_modprefix", "")
                self._modprefix = saved + it.name + "::"
                self._walk_nodes(rel, src, it.children(), kids)
                self._modprefix = saved
                if wrap:
                    self.out.add("}\n", ("tmpl", node["line"]))
            else:
                raise ValueError("%s:%d unknown directive %r" % (self.tmpl_path, node["line"], node["text"]))

    # ---- template -----------------------------------------------------
    def expand(self):
        lines = open(self.tmpl_path).read().split("\n")
        i = 0
        while i < len(lines):
            ln = lines[i]
            s = ln.strip()
            if s.startswith("//@extract"):
                rel = s.split(None, 1)[1].strip()
                j = i + 1
                block = []
                while j < len(lines) and lines[j].strip() != "//@end":
                    t = lines[j].strip()
                    if not t.startswith("//@"):
                        raise ValueError("%s:%d: non-directive line inside //@extract block" % (self.tmpl_path, j + 1))
                    body = t[3:]
                    if body.strip() and not (body.strip().startswith("# ") or body.strip() == "#"):
                        ind = len(body) - len(body.lstrip())
                        block.append((ind, body.strip(), j + 1))
                    j += 1
                if j >= len(lines):
                    raise ValueError("%s:%d: //@extract without //@end" % (self.tmpl_path, i + 1))
                root = parse_directives(block, i + 1)
                self.do_extract(rel, root)
                i = j + 1
                continue
            if s.startswith("//@include"):
                inc = os.path.join(os.path.dirname(self.tmpl_path), s.split(None, 1)[1].strip())
                for k, l2 in enumerate(open(inc).read().split("\n")):
                    self.out.add(l2 + "\n", ("tmpl", "%s:%d" % (os.path.basename(inc), k + 1)))
                i += 1
                continue
            if s.startswith("//@rlimit"):
                i += 1
                continue
            if s == "//@alloc_budget":
                # every `Vec::with_capacity(n)` in extracted code of this unit becomes the budgeted allocator stand-in
                self.alloc_budget = True
                i += 1
                continue
            if s == "//@canary":
                if self.vac:
                    self.out.add("proof fn __vx_canary() ensures false {}\n", ("vac", "__canary"))
                    self.vac_sites.append("__canary")
                i += 1
                continue
            self.out.add(ln + "\n", ("tmpl", i + 1))
            i += 1
        if self.panic_macros:
            self.rewrites.append("%d `assert!`/`panic!` sites renamed to prelude macros whose expansion requires the condition / `false` (proof obligations)" % self.panic_macros)
        if self.pub_fields:
            self.rewrites.append("%d struct fields of extracted structs widened to `pub` (visibility only)" % self.pub_fields)
        if self.vis_narrowed:
            self.rewrites.append("%d extracted `pub` fn/const items narrowed to `pub(crate)` (visibility only)" % self.vis_narrowed)
        return self.out.render()


def locate(table, byte_off):
    lo, hi = 0, len(table) - 1
    while lo <= hi:
        mid = (lo + hi) // 2
        a, b, o = table[mid]
        if byte_off < a:
            hi = mid - 1
        elif byte_off >= b:
            lo = mid + 1
        else:
            return a, o
    return None, None
