"""Property -> units / harnesses, and the text that goes to MANIFEST.json / evidence."""

# unit -> properties it serves by default (clause-level tags `//[C10,C13]` override)
UNIT_PROPS = {
    "crdt": ["C22"],
    "service_time": ["C29"],
    "wire_frame": ["C14", "C13"],
    "limiter": ["C17"],
    "identity": ["C19", "C04", "C11", "C12"],
    "worker_auth": ["C12"],
    "pktline": ["C13"],
    "storage_clean": ["C28"],
}

LIMITER_GROUP = ["new_establishes_invariant", "refill_contract", "refill_amount_bounded", "take_contract"]


def _lim(h, **kw):
    d = {"harness": h, "package": "radicle-node", "group": LIMITER_GROUP, "timeout": 1800,
         "functions": ["radicle-node::service::limiter::TokenBucket::{new,refill,take}"],
         "trusted": ["kani/CBMC bit-precise IEEE-754 semantics; localtime::LocalTime (real crate compiled)"],
         "assumptions": ["kani::assume: bucket invariant rate finite >= 0, 0 <= tokens <= capacity, capacity = usize as f64 (established by TokenBucket::new, preserved by refill/take: both proved)"]}
    d.update(kw)
    return d


# vx unit -> kani harness used to look for a concrete failing input when a Verus obligation fails
PAIRED = {}

PROPS = {
    "C22": {
        "vx": ["crdt"],
        "kx": [],
        "technique": "Verus contracts on the extracted radicle-crdt merge functions: merge == join spec; ACI lemmas per impl (trait proof obligations)",
        "explanation": "Trait Semilattice carries ghost join_v/lawful and three law_* proof obligations; every impl's real merge body is verified to equal join_v over the abstract view, and every impl must prove idempotence, commutativity, associativity of its join_v.",
        "not_decided": "GMap::insert, GMap::merge, GSet::merge bodies use BTreeMap entry/into_iter APIs outside vstd: their contracts are assumed by Verus (external_body).",
    },
    "C29": {
        "vx": ["service_time"],
        "kx": [],
        "technique": "Verus postcondition on the extracted Service::timestamp (returned > every earlier one, for any clock value) + inductive history lemma over that contract",
        "explanation": "Service::timestamp and the real Timestamp Add/Sub/From/Deref impls are verified: the returned timestamp equals the new last_timestamp, is strictly greater than the previous last_timestamp and >= the clock, for any clock value (no monotonicity assumed). lemma_strictly_increasing lifts the per-call contract to any history of calls interleaved with arbitrary clock writes.",
        "not_decided": "Precondition last_timestamp < u64::MAX (saturating add stalls at 2^64-1 ms). That every announcement constructor uses the value just returned by timestamp() is checked in unit service (call sites), not here. localtime::LocalTime::as_millis assumed to return the stored millisecond count.",
    },
    "C14": {
        "vx": ["wire_frame"],
        "kx": [],
        "technique": "Verus contracts on extracted VarInt/payload/Control/StreamId/Frame decoders and Deserializer over a ghost byte-stream model of io::Read; parse spec from the statement; allocation budget as precondition of the allocator stand-ins; chunking lemma by induction over the Decode contract",
        "explanation": "Every decoder's result is proved to match a parse specification (Complete(n)/Incomplete/Invalid) of the bytes available, with exact consumption; a complete frame with a truncated/invalid message is Invalid (non-EOF error); every allocation site sized by input (vec![x; n], Vec::with_capacity) carries the precondition n <= bytes received + 64 KiB; Deserializer::deserialize_next drains exactly the frame or leaves the buffer unchanged; lemma_chunking shows any split of the input yields the same frames, leftover and error.",
        "not_decided": "Message::decode (inner gossip message) is only assumed to satisfy the Decode contract; io::Read/Cursor/read_to_end/byteorder are assumed stream-model contracts; encoding side (that encodings parse as Complete) is C15.",
    },
    "C17": {
        "vx": ["limiter"],
        "kx": [_lim("new_establishes_invariant"), _lim("refill_contract"), _lim("take_contract"),
               _lim("refill_amount_bounded", bounded=True, bound="elapsed < 256 whole seconds; rate with <= 10 significant mantissa bits")],
        "technique": "Kani full-domain loop-free harnesses on the real TokenBucket::{new,refill,take} (f64 bit-precise) + Verus contract on extracted RateLimiter::limit (bypass/LAN gate) + Verus window lemma over the per-call contract",
        "explanation": "Per call, for every f64/u64 input satisfying the bucket invariant and ANY clock value: no panic, refilled_at never moves backwards, tokens stay in [0, capacity], refill never removes tokens and credits nothing without a whole forward second, take admits only with a whole token and removes exactly one. RateLimiter::limit returns false and leaves the buckets untouched for bypassed nodes and non-routable IPs. lemma_window_bound: along any run obeying the step contract, admitted <= capacity + rate * whole seconds elapsed.",
        "not_decided": "Exact refill amount tokens' == min(cap, tokens + secs*rate) is only proved on a bounded domain (labelled bounded); the window lemma is over exact integer arithmetic in micro-tokens, f64 rounding of + and * is idealised there; HashMap entry/or_insert_with in limit is a stand-in with arbitrary result.",
    },
    "C12": {
        "vx": ["worker_auth", "identity"],
        "kx": [],
        "technique": "Verus gate idiom on extracted Worker::is_authorized/_process: sink upload_pack has precondition authorized(remote, header.repo); Doc::is_visible_to proved against its definition",
        "explanation": "Worker::is_authorized returns Ok only if the seeding policy of the requested repository is not Block and the identity document is visible to the requester; Worker::_process can reach the upload_pack sink (whose precondition is exactly that predicate for the same remote and the repository named in the header) only through that gate. Doc::is_visible_to is proved equal to: public, or on the allow list, or a delegate.",
        "not_decided": "Store reads (seed_policy, repository, identity_doc) return arbitrary values tied to ghost state; request header parsing (which repo id the header names) is string-level code (C13 covers its panic-freedom only); upload_pack itself (git subprocess) is the sink, not verified.",
    },
    "C28": {
        "vx": ["storage_clean"],
        "kx": [],
        "technique": "Verus sink preconditions on the extracted Repository::clean / Storage::clean: Reference::delete requires a non-protected namespace, Repository::remove requires that the local node has no signed refs; loop invariants over the remote and reference loops",
        "explanation": "Repository::clean (both loops, with `continue`) is verified: every reference deleted lies in a namespace that is neither the local key nor a delegate key, and every id reported deleted is unprotected. Storage::clean calls Repository::remove only when SignedRefsAt::load found no signed refs for the local key, and otherwise only Repository::clean.",
        "not_decided": "Assumed: references_glob(refs/namespaces/<id>/*) yields only refs of namespace <id>; find_reference returns the named ref; the map/collect chain building the delegate key set yields exactly the delegates; derive(Ord/PartialEq) on the key type is lawful. libgit2 itself is not verified.",
    },
}
