"""Property -> units / harnesses, and the text that goes to MANIFEST.json / evidence."""

# unit -> properties it serves by default (clause-level tags `//[C10,C13]` override)
UNIT_PROPS = {
    "crdt": ["C22"],
    "service_time": ["C29"],
    "wire_frame": ["C14", "C13"],
    "limiter": ["C17"],
    "identity": ["C19", "C04", "C11", "C12"],
    "worker_auth": ["C12"],
    "pktline": ["C13"],
    "storage_clean": ["C28"],
    "ssh": ["C27"],
    "session": ["C16", "C13"],
    "service_fetch": ["C16", "C13"],
    "service_gossip": ["C10", "C11", "C13"],
    "cob_op": ["C06", "C04"],
    "cob_auth": ["C07"],
    "cob_auth_patch": ["C07"],
    "cob_identity": ["C04", "C19"],
    "sync": ["C25"],
    "term": ["C26"],
    "refs_verify": ["C20", "C01"],
    "fetch_run": ["C01", "C02"],
    "service_relay": ["C11", "C10"],
    "fetch_ancestry": ["C02", "C01"],
    "wire_codec": ["C15"],
    "term_line": ["C26"],
    "cob_evaluate": ["C06"],
    "refs_text": ["C20"],
    "cob_thread": ["C07"],
    "fetch_stage": ["C01"],
    "wire_streams": ["C13"],
    "dag_remove": ["C06"],
    "policy_config": ["C12"],
    "identity_version": ["C19"],
    "fetch_validate": ["C01"],
    "service_inventory": ["C11"],
}

CRYPTO_GROUP = ["signature_roundtrip", "public_key_roundtrip"]


def _cr(h, **kw):
    d = {"harness": h, "package": "radicle-crypto", "features": "ssh", "group": [h], "timeout": 1500,
         "functions": ["radicle-crypto::ssh::<impl Encodable for PublicKey/Signature>::{read,write}", "radicle-ssh::encoding::{Cursor::read_string, Cursor::read_u32, Encoding for Vec<u8>::extend_ssh_string}"],
         "trusted": ["kani/CBMC; ec25519 from_slice (real crate compiled)"], "assumptions": []}
    d.update(kw)
    return d


LIMITER_GROUP = ["new_establishes_invariant", "refill_contract", "refill_amount_bounded", "take_contract"]


def _lim(h, **kw):
    d = {"harness": h, "package": "radicle-node", "group": LIMITER_GROUP, "timeout": 1800,
         "functions": ["radicle-node::service::limiter::TokenBucket::{new,refill,take}"],
         "trusted": ["kani/CBMC bit-precise IEEE-754 semantics; localtime::LocalTime (real crate compiled)"],
         "assumptions": ["kani::assume: bucket invariant rate finite >= 0, 0 <= tokens <= capacity, capacity = usize as f64 (established by TokenBucket::new, preserved by refill/take: both proved)"]}
    d.update(kw)
    return d


# vx unit -> kani harness used to look for a concrete failing input when a Verus obligation fails
PAIRED = {}

PROPS = {
    "C15": {
        "vx": ["wire_codec"],
        "kx": [],
        "technique": "Verus contracts on the extracted Encode/Decode impls of wire.rs and wire/message.rs over ghost byte-stream models of io::Read / io::Write: one ghost function per type gives its wire bytes; Encode::encode writes exactly enc(self) and returns its length; Decode::decode returns Ok(v) only by consuming exactly wire(v); per-type law wire(v) == enc(v) and lemma_message_canonical / lemma_message_fits over those contracts; serialize / deserialize under contract",
        "explanation": "For u8/u16/u32/u64, [u8;N], PublicKey, Signature, git::Oid, RepoId, Timestamp, RefsAt, &[T], BoundedVec<T,N> (both loops, with invariants), Filter, ZeroBytes, Info, node::Features, Node/Inventory/RefsAnnouncement, AnnouncementMessage, Message: (E) encode appends exactly the type's wire bytes and returns their count, Message::encode accepts only <= 65535 bytes; (D) whenever decode returns Ok(v) the bytes it consumed are exactly wire(v) -- so no second byte string decodes to the same value -- with the statement's one exception made explicit: NodeAnnouncement (and Message) may also accept the announcement without its trailing user agent when nothing at all follows, and nothing else -- and (lemma_message_canonical: wire(m) == m.enc()) re-encoding a decoded message reproduces the received bytes; deserialize accepts only the complete canonical encoding; lemma_message_fits: every message within the constructors' limits (BoundedVec bounds, filter sizes, ping/pong padding limits) encodes to <= 65535 bytes.",
        "not_decided": "Round-trip direction decode(enc(v)) == Ok(v) (that every encoding is accepted) is not proved -- the quickcheck tests sample it; it would need a success condition per decoder. Alias, UserAgent (validated strings) and OnionAddrV3 (cyphernet) are opaque leaves with assumed Encode/Decode contracts; `Decode for String` is verified relative to the assumed contract of String::from_utf8 (Ok only for the UTF-8 encoding of the result), `Encode for &str/String` is an assumed leaf; Refs/SignedRefs, git::Url, VarInt/frames (C14) are outside the unit; Read::chain (used by the repaired NodeAnnouncement::decode) is represented by a stand-in. Assumed: byteorder read/write_uN are big-endian, io::Read/Write stream models, Vec::with_capacity(n).capacity() == n, bloomy's filter is its byte array, `enum as u16` yields the discriminant, the contracts of AddressType::try_from and InfoType::try_from in place (Verus cannot discharge vstd's generic TryFrom clause inside the impl it is about; their real bodies are verified against the same contract text as free-fn twins, so a change to either body is decided), Result::unwrap_or, byte counters do not overflow usize.",
    },
    "C01": {
        "vx": ["fetch_run", "fetch_validate", "fetch_ancestry", "refs_verify", "fetch_stage"],
        "kx": [],
        "technique": "Verus sink precondition on the extracted FetchState::run: repository::update may only see tips of namespaces that the validation oracle accepted (loop invariant over the validation loop, prune contract); Verus contract on SignedRefs::verify (signature by the namespace key over the canonical text, identity root names this repository)",
        "explanation": "FetchState::run (the whole validation loop with all four DelegateStatus arms, continue/early-return paths) is verified: at the single call that writes to the git repository, every non-blocked remote among the advertised signed-refs remotes that still has tips was reported valid by sigrefs::validate and its advertised rad/sigrefs is neither behind nor diverged from the stored one (delegate or not); FetchState::prune is proved to remove exactly that remote's tips/ids/sigrefs. Unit fetch_validate proves what 'reported valid' means: <Cached as ValidateRepository>::validate_remote (both loops) returns no findings only if the fetched namespace contains refs/rad/sigrefs and otherwise exactly the signed refs, each at the signed oid; sigrefs::validate returns None exactly then. Unit fetch_stage: <DataRefs as ProtocolStage>::prepare_updates (three nested loops) queues, for every fetched remote, a direct update to the signed target for every signed ref and a prune -- with its current target -- for every other existing reference of THAT remote's namespace outside refs/rad. SignedRefs::verify/verified accept only when the ed25519 check of the claimed key over Refs::canonical succeeds and refs/rad/root resolves to an identity document whose blob id is this repository's id.",
        "not_decided": "In unit fetch_stage the reference-name constructions (Qualified/Namespaced of git-ref-format), Updates::add (BTreeMap entry API), Repository::references_of and the iteration orders are stand-ins with assumed contracts, remotes and reference names are assumed unique (map keys); repository::direct is under contract (unit fetch_ancestry: with Policy::Allow every successful outcome is an applied update, also for a rewound or diverged target) but 'Accepted' is tied to the libgit2 write only by inspection; the link between unit fetch_run's ghost `validated(r)` and unit fetch_validate's `matches_signed` is by name only (two units); Refdb::references_of is assumed to enumerate the namespace's refs exactly once; the iterator chains computing the delegate key set are stand-ins; the protocol stages (network, in-memory refdb) are arbitrary; that a namespace left out of `tips` is byte-for-byte untouched by libgit2 is outside any contract.",
    },
    "C02": {
        "vx": ["fetch_run", "fetch_ancestry"],
        "kx": [],
        "technique": "Verus sink precondition on the extracted FetchState::run: repository::update requires |valid delegates| >= identity threshold (minus one if the local node is a delegate) and that no remote whose signed refs were found missing/invalid during this fetch is counted; ghost set threaded through the validation oracles",
        "explanation": "The threshold expression, the valid_delegates bookkeeping in every arm of the loop and the final gate are verified together: update is reachable only if the set counted has at least doc.threshold() - [local is delegate] members, is a subset of the delegates, and contains no remote for which load returned no sigrefs or validate returned failures. A Diverged delegate aborts with Err before any update; a Behind delegate is pruned.",
        "not_decided": "Of the chain computing the initially valid delegates the source (local namespaces) is a stand-in, its delegate filter is the repo's closure with a contract in place (a different filter carries no contract and is reported); Only the Success/Failed gate in run is decided; ensure_threshold in SpecialRefs::pre_validate, special_update in refs.rs (which policy a ref gets) is outside the units; repository::direct (what a policy then does) is under contract in unit fetch_ancestry: a rewind is never applied unless the policy is Allow, a fork is rejected (Reject) or aborts (Abort). repository::ancestry is proved (unit fetch_ancestry) to classify exactly by libgit2's ahead/behind counts of the peeled commits (Equal / Ahead = strictly descends / Behind = rewind / Diverged = anything else); libgit2's graph_ahead_behind itself is assumed. 'Leaves local storage unchanged' on Failed is decided as 'repository::update is not called'; Doc::threshold() >= 1 is proved in unit identity.",
    },
    "C20": {
        "vx": ["refs_verify", "refs_text"],
        "kx": [],
        "technique": "Verus contract on the extracted SignedRefs::<Unverified>::{verify, verified}: Ok <==> ed25519-valid(claimed key, canonical(refs), signature) and identity-root binding; accepted value carries exactly the verified refs, key and signature; contracts on the extracted Refs::{canonical, from_canonical} against spec functions canon_text / parse_lines over an ASSUMED model of the text primitives, and a round-trip lemma (induction) over those two contracts",
        "explanation": "Refs::canonical is proved to return exactly one `<hex oid> <name>\\n` line per entry of the map, in iteration order, nothing skipped; Refs::from_canonical is proved to return, on Ok, exactly parse_lines(lines of the input): every line split at its FIRST space, nothing trimmed, every non-zero oid inserted, later lines winning; lemma_roundtrip proves parse_lines(lines(canon_text(order(m)))) == m for every map of valid names and non-zero oids. verify returns Ok only when PublicKey::verify over Refs::canonical(self.refs) succeeds for the claimed id, and the result's refs/signature/id equal the inputs (no other refs can be accepted under that signature).",
        "not_decided": "The round trip is relative to the ASSUMED text model (unit refs_text header): BufRead::lines undoes one-\\n-terminated-line-each for lines without \\n/\\r, Display/FromStr of Oid are inverse and hex has no space, a valid RefString has no newline and re-validates to itself, BTreeMap::iter yields every entry once in an order determined by the contents, String::into_bytes is UTF-8 encoding. 'Changing any ref makes verification fail' reduces to ed25519 unforgeability and injectivity of canonical(): assumed, not proved.",
    },
    "C19": {
        "vx": ["identity", "cob_identity", "identity_version"],
        "kx": [],
        "technique": "Verus contracts on the extracted Delegates::new (its try_fold closure lifted verbatim to a named fn with a contract; std's try_fold default body transcribed and verified with a loop invariant), Threshold::new, RawDoc::verified, Delegates/Doc accessors: every Doc constructed satisfies valid() (1..=255 distinct delegates, 1 <= threshold <= #delegates); Version::new / Version::deserialize against `supported`",
        "explanation": "Delegates::new is proved to return Ok only with a duplicate-free list of 1..=255 delegates containing exactly the delegates given; Threshold::new is Ok exactly for 1 <= t <= min(255, #delegates); RawDoc::verified returns Ok only with a Doc satisfying valid() whose delegates/threshold/visibility are those of the raw document. Every constructor of Doc in doc.rs goes through these. From git: <Identity as store::Cob>::from_root (unit cob_identity) returns an identity only when the blob id of the root document it loaded equals the id of the repository it was read in (and the identity's id is that blob id).",
        "not_decided": "The version check is decided in unit identity_version (Version::new accepts exactly 1..=latest; <Version as Deserialize>::deserialize accepts only the number that was read, relative to a stand-in for serde's integer reads and NonZeroU32; that IDENTITY_VERSION is 1 is assumed -- it is built with an unsafe constructor); serde/JSON decoding of the rest (that Deserialize goes through RawDoc::verified is by inspection of the serde attribute), encode/decode round-trip and that Repository::init derives the RepoId as the git blob hash of the canonical encoding are outside Verus (serde_json, git2): not decided (only the check on the reading side, from_root, is). Doc::load_at and Identity::new are assumed by contract. slice::contains, NonEmpty::from_vec assumed by contract; Iterator::try_fold is represented by a transcription of its default body.",
    },
    "C22": {
        "vx": ["crdt"],
        "kx": [],
        "technique": "Verus contracts on the extracted radicle-crdt merge functions: merge == join spec; ACI lemmas per impl (trait proof obligations)",
        "explanation": "Trait Semilattice carries ghost join_v/lawful and three law_* proof obligations; every impl's real merge body is verified to equal join_v over the abstract view, and every impl must prove idempotence, commutativity, associativity of its join_v.",
        "not_decided": "GMap::insert (BTreeMap entry API) and GSet::merge (into_keys) are outside vstd: their contracts are assumed by Verus (external_body). GMap::merge's body IS verified (loop invariant over a by-value iteration stand-in that yields every entry once).",
    },
    "C29": {
        "vx": ["service_time"],
        "kx": [],
        "technique": "Verus postcondition on the extracted Service::timestamp (returned > every earlier one, for any clock value) + inductive history lemma over that contract + sink preconditions at the signing call sites (the message that gets signed carries the timestamp issued last)",
        "explanation": "Service::timestamp and the real Timestamp Add/Sub/From/Deref impls are verified: the returned timestamp equals the new last_timestamp, is strictly greater than the previous last_timestamp and >= the clock, for any clock value (no monotonicity assumed). lemma_strictly_increasing lifts the per-call contract to any history of calls interleaved with arbitrary clock writes.",
        "not_decided": "Precondition last_timestamp < u64::MAX (saturating add stalls at 2^64-1 ms). Call sites: add_inventory / remove_inventory / refresh_and_announce_inventory (the inventory message that gets signed carries the timestamp issued last) and refs_announcement_for (the refs announcement handed to `signed` carries the timestamp issued last) are under contract; the initial node announcement (built in runtime.rs from the wall clock before the service exists) and the inventory message of Service::initialize are not. localtime::LocalTime::as_millis assumed to return the stored millisecond count.",
    },
    "C14": {
        "vx": ["wire_frame"],
        "kx": [],
        "technique": "Verus contracts on extracted VarInt/payload/Control/StreamId/Frame decoders and Deserializer over a ghost byte-stream model of io::Read; parse spec from the statement; allocation budget as precondition of the allocator stand-ins; chunking lemma by induction over the Decode contract",
        "explanation": "Every decoder's result is proved to match a parse specification (Complete(n)/Incomplete/Invalid) of the bytes available, with exact consumption; a complete frame with a truncated/invalid message is Invalid (non-EOF error); every allocation site sized by input (vec![x; n], Vec::with_capacity) carries the precondition n <= bytes received + 64 KiB; Deserializer::deserialize_next drains exactly the frame or leaves the buffer unchanged; lemma_chunking shows any split of the input yields the same frames, leftover and error.",
        "not_decided": "Message::decode (inner gossip message) is only assumed to satisfy the Decode contract; io::Read/Cursor/read_to_end/byteorder are assumed stream-model contracts; encoding side (that encodings parse as Complete) is C15.",
    },
    "C17": {
        "vx": ["limiter"],
        "kx": [_lim("new_establishes_invariant"), _lim("refill_contract"), _lim("take_contract"),
               _lim("refill_amount_bounded", bounded=True, bound="elapsed < 256 whole seconds; rate with <= 10 significant mantissa bits")],
        "technique": "Kani full-domain loop-free harnesses on the real TokenBucket::{new,refill,take} (f64 bit-precise) + Verus contract on extracted RateLimiter::limit (bypass/LAN gate) + Verus window lemma over the per-call contract",
        "explanation": "Per call, for every f64/u64 input satisfying the bucket invariant and ANY clock value: no panic, refilled_at never moves backwards, tokens stay in [0, capacity], refill never removes tokens and credits nothing without a whole forward second, take admits only with a whole token and removes exactly one. RateLimiter::limit returns false and leaves the buckets untouched for bypassed nodes and non-routable IPs. lemma_window_bound: along any run obeying the step contract, admitted <= capacity + rate * whole seconds elapsed.",
        "not_decided": "Exact refill amount tokens' == min(cap, tokens + secs*rate) is only proved on a bounded domain (labelled bounded); the window lemma is over exact integer arithmetic in micro-tokens, f64 rounding of + and * is idealised there; HashMap entry/or_insert_with in limit is a stand-in with arbitrary result.",
    },
    "C12": {
        "vx": ["worker_auth", "identity", "policy_config"],
        "kx": [],
        "technique": "Verus gate idiom on extracted Worker::is_authorized/_process: sink upload_pack has precondition authorized(remote, header.repo); Doc::is_visible_to proved against its definition",
        "explanation": "Worker::is_authorized returns Ok only if the seeding policy of the requested repository is not Block and the identity document is visible to the requester; Worker::_process can reach the upload_pack sink (whose precondition is exactly that predicate for the same remote and the repository named in the header) only through that gate. Doc::is_visible_to is proved equal to: public, or on the allow list, or a delegate. The policy consulted (unit policy_config): Config::seed_policy returns the operator's explicit entry for the repository whenever there is one (a block is never overridden by the node-wide default) and the default only when there is none.",
        "not_decided": "Store reads (the SQL lookup behind seed_policy, repository, identity_doc) return arbitrary values tied to ghost state; request header parsing (which repo id the header names) is string-level code (C13 covers its panic-freedom only); upload_pack itself (git subprocess) is the sink, not verified.",
    },
    "C28": {
        "vx": ["storage_clean"],
        "kx": [],
        "technique": "Verus sink preconditions on the extracted Repository::clean / Storage::clean: Reference::delete requires a non-protected namespace, Repository::remove requires that the local node has no signed refs; loop invariants over the remote and reference loops",
        "explanation": "Repository::clean (both loops, with `continue`) is verified: every reference deleted lies in a namespace that is neither the local key nor a delegate key, and every id reported deleted is unprotected. Storage::clean calls Repository::remove only when SignedRefsAt::load found no signed refs for the local key, and otherwise only Repository::clean.",
        "not_decided": "Assumed: references_glob(refs/namespaces/<id>/*) yields only refs of namespace <id>; find_reference returns the named ref; the map/collect chain building the delegate key set yields exactly the delegates (a lookup by `binary_search` over the mapped, unsorted list is declared with the contract 'Ok names a present element' only, so such a lookup is reported; a variant that sorts first would need that contract extended); derive(Ord/PartialEq) on the key type is lawful. libgit2 itself is not verified.",
    },
    "C10": {
        "vx": ["service_gossip", "service_relay"],
        "kx": [],
        "technique": "Verus gate idiom on the extracted Service::handle_announcement: sink gossip::Store::announced requires acceptable(announcement, clock); Announcement::verify proved to be the ed25519 check over the serialized message",
        "explanation": "Service::handle_announcement reaches the gossip store only with an announcement whose signature verifies for the announcing node over its wire encoding, whose timestamp is at most one hour ahead of the clock and not zero, whose announcer is known for inventory/refs announcements and is not the local node; a result of Some(id) implies those facts. Every delivery that the gossip store takes (ghost log of `announced` returning Ok(Some(id))) leaves the delivering peer on record in relayed_by for that id when handle_announcement returns -- whether or not the call decides to relay -- so that the next relay of that row excludes it.",
        "not_decided": "Strictly-newer-than-stored is SQL (WHERE timestamp < ?) inside the store; both exclusions of Service::relay are proved in unit service_relay (Outbox::relay is only given peers other than the announcer; no peer recorded in relayed_by for this announcement is among them); the HashMap-entry push itself (`relayed_by.entry(id).or_default().push(relayer)`) is a stand-in assumed to do what it says, and the per-type processing is assumed not to forget deliverers; the record is required to be complete when handle_announcement returns -- a refactoring that completes it in the caller for every accepted delivery would be reported although it keeps the property; the per-type processing after the store is an opaque stand-in (arbitrary effect, result Ok(relay)|Ok(None) assumed). serialize() and ed25519 are uninterpreted.",
    },
    "C11": {
        "vx": ["service_gossip", "service_relay", "service_inventory", "identity"],
        "kx": [],
        "technique": "Verus sink precondition on Outbox::write (a refs announcement is queued for a peer only if the repository is visible to it), carried through the extracted Outbox::{relay,broadcast,announce}, Service::relay, Service::announce_refs (closure contracts written in place on the visibility filters; Iterator::filter/map by contract) and the Subscribe replay loop of Service::handle_message; Doc::is_visible_to proved against its definition",
        "explanation": "Every path in the extracted code that reaches Outbox::write with a refs announcement is proved to satisfy visible(rid, peer): the replay loop of handle_message (loop invariant), Service::relay (third filter closure proved to return true only for peers the stored document makes the repository visible to, false when the repository is unknown), Service::announce_refs (filter closure == doc.is_visible_to), Outbox::relay/broadcast/announce (loops over the peers they were given, nobody else). Doc::is_visible_to == public or allow-listed or delegate (unit identity).",
        "not_decided": "Second sentence of C11 (private repositories never appear in an inventory announcement): decided only for the inventory message built at start-up -- Service::initialize is verified (unit service_inventory) to hand gossip::inventory a set containing only repositories whose document is public; refresh_and_announce_inventory / add_inventory rebuild the message from the routing table (SQL), whose content is outside any contract (Service::add_inventory does not itself test visibility: its callers do) -- not decided. Callers of announce_refs are assumed to pass the document of `rid`; Sessions::connected is assumed to yield (id, session) pairs with session.id == id; Iterator::filter/map/next are assumed by contract; a closure added on these paths without a contract makes the proof fail (reported as a violation of the closure's caller obligation).",
    },
    "C13": {
        "vx": ["wire_frame", "pktline", "session", "service_fetch", "service_gossip", "wire_streams"],
        "kx": [],
        "technique": "Verus panic-freedom obligations (index/slice bounds, overflow, unreachable!, assert!/debug_assert! as preconditions of stand-ins) on extracted decoders, pkt-line reader, session bookkeeping and message handlers; store assertions as sink preconditions",
        "explanation": "For the extracted functions every slice/index access, arithmetic operation, unreachable!/assert!/debug_assert!/panic! is proved unreachable or true for all inputs: VarInt/Frame/Control/payload decoding and Deserializer; read_pktline/read_request_pktline; Session::{queue_fetch,fetching,to_attempted,to_initial} assertions at their call sites in the extracted callers; gossip store assertions (timestamp != 0, since <= until) as preconditions established by handle_announcement/handle_message; allocation sizes bounded by bytes received. Stream table (unit wire_streams): Streams::open never hits its `expect`s (fewer than 2^58 streams opened) given the invariant 'no registered git stream of our own half of the id space is ahead of our sequence number', which Streams::new establishes and Streams::register -- the only operation that takes an id chosen by the peer -- preserves by refusing ids of our half (defect F14, repaired).",
        "not_decided": "That the `Control::Open` handler (inside the 400-line Wire::received) hands the peer's id to Streams::register and to nothing else is by inspection; Streams::insert (HashMap entry API) is a stand-in. Only the listed functions: Message::decode and the other message decoders, GitRequest::parse (str code), Service handlers other than handle_message/handle_announcement gate/fetched/queue_fetch, netservices/cyphernet transport are not covered. Stand-ins with arbitrary results are assumed not to panic.",
    },
    "C16": {
        "vx": ["session", "service_fetch"],
        "kx": [],
        "technique": "Verus data-structure invariant on the extracted impl Session (fetch set within the concurrency limit, queue within capacity, assertions as preconditions) + failure frame on Service::fetched + frame contract on Service::disconnected (nothing is cancelled for another link or another peer) + contract on Service::try_fetch (sink Outbox::fetch requires a connected session that is below its limit and not already fetching the repository; a fetch starts only if the table has no entry for the repository)",
        "explanation": "Session::{is_at_capacity,is_fetching,queue_fetch,dequeue_fetch,fetching,fetched,to_connected,to_disconnected} are verified against the abstract fetch set/queue: fetching(rid) requires connected, not already fetching and below the limit and yields exactly set.insert(rid) within the limit; queue never exceeds 128. Service::fetched: a result from a peer other than the one the ongoing fetch of that repository belongs to leaves the fetch table unchanged (and never trips the debug assertion).",
        "not_decided": "HashMap::retain and std's Entry API (used by Service::disconnected / try_fetch) are assumed by contract; dequeue_fetches and maintain_connections are stand-ins assumed to keep existing entries of the fetch table; the representation invariant wf() linking the sessions' fetch sets to the service's fetch table is a precondition of try_fetch whose preservation by the other handlers is not verified; 'at most one fetch per repository' rests on the fetch table being a map keyed by repository; interleavings are covered only in the sense that each verified handler preserves the invariants for any prior state.",
    },
    "C27": {
        "vx": ["ssh"],
        "kx": [_cr("public_key_roundtrip")],
        "technique": "Verus panic-freedom on extracted encoding::Cursor and AgentClient::{request_identities,sign,read_signature} for an arbitrary agent reply; Kani full-domain round-trip harnesses for PublicKey/Signature SSH encoding",
        "explanation": "For any reply bytes (ClientStream::request result arbitrary) request_identities, sign and read_signature index and slice within bounds and copy_from_slice only with equal lengths; Cursor::{read_u32,read_string,read_byte,read_mpint} never read out of bounds and advance exactly. Kani: for all 2^256 public keys, write then read of the key blob yields the same key and consumes the whole encoding.",
        "not_decided": "Signature round-trip: the Kani harness (kx/harness/crypto_ssh.rs: signature_roundtrip) did not finish within 60 min with cadical nor 12 min with kissat and is NOT run or counted; mpint_len/extend_ssh_mpint (local encoding side) not covered; Zeroizing<Vec<u8>> assumed transparent; 64-bit usize assumed.",
    },
    "C04": {
        "vx": ["cob_identity", "identity", "cob_op"],
        "kx": [],
        "technique": "Verus contracts on the extracted Identity::action / Revision::{accept, reject} / lookup::* / <Identity as Cob>::from_root, data-structure invariant votes_backed preserved by action: delegate gate, signature check against the current document, sink precondition on adopt; Doc::verify_signature, majority arithmetic and the op-level failure frame proved separately",
        "explanation": "Identity::action (all five arms) is verified: an author who is not a delegate of the current document gets Err; redacting or editing the current revision gets Err; Identity::adopt is only reached for a revision on which a delegate of the current document has recorded an accepting signature that verifies over that revision's blob (Revision::accept verifies with the CURRENT document before recording, duplicate verdicts are errors); the current revision changes only to such a revision. Every vote that adopt counts stays backed by a recorded valid signature: Identity::action preserves `votes_backed` (each head points at an existing revision whose verdicts record a valid accepting signature of that key over the revision's blob), Revision::accept adds exactly one verdict and Revision::reject is Ok only for a key without a verdict, so a recorded acceptance cannot be overwritten while its vote keeps counting. Doc::verify_signature == delegate && ed25519 check; Doc::majority == n/2+1 (strict majority); a failed operation leaves the identity untouched (cob_op).",
        "not_decided": "The vote COUNT inside Identity::adopt (heads.values().filter(..).count() vs is_majority) and the voiding of other active revisions are iterator/closure code: adopt is a sink with an assumed frame (current stays or becomes id; verdicts/heads untouched). Representation invariant wf() of Identity is assumed, its preservation is not verified (votes_backed is verified to be preserved by action, relative to adopt's assumed frame). Causal-order evaluation (change graph) is out of reach.",
    },
    "C06": {
        "vx": ["cob_op", "cob_evaluate", "dag_remove"],
        "kx": [],
        "technique": "Verus failure-frame postcondition on the extracted <Issue|Patch|Identity as store::Cob>::op with op_action/action as arbitrary-effect stand-ins; contract on ChangeGraph::evaluate and on its prune_by filter closure (lifted verbatim to a named fn)",
        "explanation": "For Issue, Patch and Identity: if `op` returns Err the object is exactly the value it had before the call, whatever the individual actions did before the failing one (actions are arbitrary-effect stand-ins, so the proof does not depend on which action fails or why). In ChangeGraph::evaluate (unit cob_evaluate) the filter handed to Dag::prune_by answers Break -- prune -- for every entry whose signature does not verify or which Evaluate::apply refuses, in both cases with the object exactly as it was before the call; on Continue the object is the result of applying that entry once; and no object is produced unless the root entry exists and its signature verifies.",
        "not_decided": "Dag::remove -- what prune_by applies to a node on Break -- is verified in unit dag_remove (recursion with a termination measure: the node is removed, the graph only shrinks, every direct dependent is gone, and by the same contract theirs); that Dag::prune_by calls the filter once per reachable node in dependency order and calls remove on Break is ASSUMED (stand-in without body), so the whole-history equation 'state == evaluation of the pruned history' follows only relative to that; Evaluate::apply's failure frame is a trait contract taken from the statement, proved for Issue/Patch/Identity::op only (Thread and External by inspection); what a valid signature is (ExtendedSignature::verify) is a ghost fact.",
    },
    "C07": {
        "vx": ["cob_auth", "cob_auth_patch", "cob_thread"],
        "kx": [],
        "technique": "Verus postcondition = the statement's rule table on the extracted Issue::authorization / Patch::authorization (+ lookup::review/revision); gate idiom on op_action (sink `action` requires authorization)",
        "explanation": "Issue::authorization and Patch::authorization return Allow only for delegates of the referenced document or when the rule table written from the statement allows it (assign/label/merge: delegates only, no-op tolerated; edit/lifecycle: object author; comment, review, revision edit/redact: their author). op_action reaches the mutating `action` only on Allow; Deny is an error and Unknown leaves the object unchanged. The key those comment rules compare with (unit cob_thread): Comment::new records its author, Comment::author returns that key and Comment::edit -- by whoever is allowed to make it -- never changes it.",
        "not_decided": "What `action` then does to the object; Issue::author / Thread::comment lookups are assumed accessors (Comment::author itself is verified in cob_thread; the Comment of units cob_auth / cob_auth_patch is a stand-in with that contract); Patch representation invariant reviews_wf assumed.",
    },
    "C25": {
        "vx": ["sync"],
        "kx": [],
        "technique": "Verus postconditions (both directions) on the extracted ReplicationFactor, Target::new, Announcer::{is_target_reached,synced_with,timed_out}, Fetcher::{is_target_reached,include_node,next_fetch,ready_to_fetch} against a target_met spec written from the statement",
        "explanation": "is_target_reached returns Some exactly when the target is met (announcer: all preferred seeds synced and the replica count reached; fetcher: all preferred seeds fetched or the replica count reached; the count is the maximum of a range, else the minimum); Announcer::timed_out reports Success exactly then and TimedOut otherwise; synced_with(local node) changes nothing; Fetcher::include_node excludes the local node and nodes that already have a result; ReplicationFactor::range/min keep lower < upper.",
        "not_decided": "success_counts (fold closures), next_node (iter::from_fn + find_map), Announcer::new, Fetcher::finish, missing_seeds are not ingested -- in particular that Announcer::new removes the local node from all three input sets is NOT decided (a change that forgets the `synced` set there goes unnoticed by this check: exit 0; the existing test rad_sync catches it); the counts are ghost values assumed to be what success_counts returns.",
    },
    "C26": {
        "vx": ["term", "term_line"],
        "kx": [],
        "technique": "Verus loop invariant + postcondition on the extracted <str as Cell>::truncate over an assumed grapheme/width model of strings; every slice index must be a char boundary (precondition of the slicing stand-ins)",
        "explanation": "Relative to the assumed string model (grapheme clusters tile the string and end on char boundaries, width is additive over clusters, an ASCII space is one byte and one column), <str as Cell>::truncate never slices at a non-boundary, never overflows, and returns text whose display width is at most the requested width, for every input string, width and delimiter (including the empty delimiter and multi-byte whitespace).",
        "not_decided": "Line::truncate is under contract in unit term_line (ends within the width, no underflow, terminates -- relative to the assumed contract 'a truncated label is never wider than requested', which unit term proves for str only; Label/Paint delegate to it by inspection); the string model itself (unicode-segmentation, unicode-display-width, format!/to_owned) is assumed, so this is a proof about the index/width arithmetic of the function, not about Unicode.",
    },
}
