"""Property -> units / harnesses, and the text that goes to MANIFEST.json / evidence."""

# unit -> properties it serves by default (clause-level tags `//[C10,C13]` override)
UNIT_PROPS = {
    "crdt": ["C22"],
    "service_time": ["C29"],
}

# vx unit -> kani harness used to look for a concrete failing input when a Verus obligation fails
PAIRED = {}

PROPS = {
    "C22": {
        "vx": ["crdt"],
        "kx": [],
        "technique": "Verus contracts on the extracted radicle-crdt merge functions: merge == join spec; ACI lemmas per impl (trait proof obligations)",
        "explanation": "Trait Semilattice carries ghost join_v/lawful and three law_* proof obligations; every impl's real merge body is verified to equal join_v over the abstract view, and every impl must prove idempotence, commutativity, associativity of its join_v.",
        "not_decided": "GMap::insert, GMap::merge, GSet::merge bodies use BTreeMap entry/into_iter APIs outside vstd: their contracts are assumed by Verus (external_body).",
    },
    "C29": {
        "vx": ["service_time"],
        "kx": [],
        "technique": "Verus postcondition on the extracted Service::timestamp (returned > every earlier one, for any clock value) + inductive history lemma over that contract",
        "explanation": "Service::timestamp and the real Timestamp Add/Sub/From/Deref impls are verified: the returned timestamp equals the new last_timestamp, is strictly greater than the previous last_timestamp and >= the clock, for any clock value (no monotonicity assumed). lemma_strictly_increasing lifts the per-call contract to any history of calls interleaved with arbitrary clock writes.",
        "not_decided": "Precondition last_timestamp < u64::MAX (saturating add stalls at 2^64-1 ms). That every announcement constructor uses the value just returned by timestamp() is checked in unit service (call sites), not here. localtime::LocalTime::as_millis assumed to return the stored millisecond count.",
    },
}
