"""Property -> units / harnesses, and the text that goes to MANIFEST.json / evidence."""

# unit -> properties it serves by default (clause-level tags `//[C10,C13]` override)
UNIT_PROPS = {
    "crdt": ["C22"],
}

# vx unit -> kani harness used to look for a concrete failing input when a Verus obligation fails
PAIRED = {}

PROPS = {
    "C22": {
        "vx": ["crdt"],
        "kx": [],
        "technique": "Verus contracts on the extracted radicle-crdt merge functions: merge == join spec; ACI lemmas per impl (trait proof obligations)",
        "explanation": "Trait Semilattice carries ghost join_v/lawful and three law_* proof obligations; every impl's real merge body is verified to equal join_v over the abstract view, and every impl must prove idempotence, commutativity, associativity of its join_v.",
        "not_decided": "GMap::insert, GMap::merge, GSet::merge bodies use BTreeMap entry/into_iter APIs outside vstd: their contracts are assumed by Verus (external_body).",
    },
}
