"""Run one vx unit: expand template from /repo, run Verus, classify diagnostics.

result dict:
  status: 'pass' | 'violation' | 'undecided'
  failed: [ {obligation, kind, message, site, clause, detail} ]      (proof failures)
  undecided: [messages]                                             (front-end / tool problems)
  verified, errors, fns, skipped, rewrites, clauses, solver_ms, assumptions, vacuity
"""
import json
import os
import re
import subprocess
import sys
import time

sys.path.insert(0, os.path.dirname(os.path.abspath(__file__)))
import gen  # noqa: E402

VERIF = os.path.dirname(os.path.dirname(os.path.abspath(__file__)))
OUT = os.path.join(VERIF, "out")

PROOF_FAIL = [
    (r"postcondition not satisfied", "postcondition"),
    (r"unable to prove post-?condition of closure", "closure_postcondition"),
    (r"unable to prove pre-?condition of closure|Call to non-static function fails to satisfy `callee.requires", "closure_precondition"),
    (r"precondition not satisfied", "precondition"),
    (r"assertion failed", "assertion"),
    (r"^requires not satisfied", "assertion"),
    (r"invariant not satisfied", "invariant"),
    (r"possible arithmetic underflow/overflow", "overflow"),
    (r"possible division by zero", "div0"),
    (r"possible bit shift underflow/overflow", "shift"),
    (r"decreases not satisfied", "termination"),
    (r"could not prove termination", "termination"),
    (r"index out of bounds", "bounds"),
    (r"unreachable", "unreachable"),
    (r"failed precondition", "precondition"),
    (r"constructed value may fail to meet its declared type invariant", "type_invariant"),
]
TOOL_FAIL = [r"[Rr]esource limit", r"rlimit", r"timed? ?out", r"not supported", r"unsupported", r"panicked", r"internal error"]

ASSUME_PAT = re.compile(r"\bassume\s*\(|\badmit\s*\(|external_body|assume_specification|#\[verifier::external\b|external_trait_specification|external_type_specification|\baxiom\b|uninterp\s+spec")


def verus_cmd(path, extra=()):
    base = ["verus", path, "--error-format=json", "--output-json", "--time"]
    if "--multiple-errors" not in extra:
        base += ["--multiple-errors", "8"]
    return base + list(extra)


def run_verus(path, extra=(), timeout=900):
    t0 = time.time()
    p = subprocess.run(verus_cmd(os.path.basename(path), extra), cwd=os.path.dirname(path), capture_output=True, text=True, timeout=timeout)
    wall = time.time() - t0
    diags = []
    for line in p.stderr.splitlines():
        line = line.strip()
        if line.startswith("{"):
            try:
                d = json.loads(line)
            except Exception:
                continue
            if d.get("$message_type") == "diagnostic" or "message" in d:
                diags.append(d)
    summary = None
    try:
        summary = json.loads(p.stdout[p.stdout.index("{"):])
    except Exception:
        pass
    return p.returncode, diags, summary, p.stderr, wall


def line_of(text, off):
    return text.count("\n", 0, off) + 1


def describe_origin(o, files):
    if o is None:
        return {"where": "?"}
    k = o[0]
    if k in ("repo", "rewrite"):
        rel, off = o[1], o[2]
        src = files.get(rel)
        ln = line_of(src[0], off) if src else None
        return {"where": "repo", "file": rel, "line": ln}
    if k == "clause":
        return {"where": "contract", "fn": o[1], "kw": o[2], "index": o[3], "tmpl_line": o[4], "text": o[5]}
    if k == "vac":
        return {"where": "vac", "fn": o[1]}
    if k == "tmpl":
        return {"where": "template", "line": o[1] if len(o) == 2 else None, "ctx": o[1:]}
    return {"where": str(k)}


def enclosing_fn(exp, table, gen_text_bytes, byte_off):
    """Best effort: which extracted fn contains this generated-file offset (by scanning fn records)."""
    return None


def classify(exp, table, gen_text, diags):
    failed, undecided, warnings = [], [], 0
    gb = gen_text.encode()
    # map byte offset -> char offset lazily (files are mostly ascii); use bytes for lookup
    for d in diags:
        lvl = d.get("level")
        msg = d.get("message", "")
        if lvl == "warning" or lvl == "note" or lvl == "help":
            warnings += 1
            continue
        if lvl != "error":
            continue
        if msg.startswith("aborting due to"):
            continue
        kind = None
        for pat, k in PROOF_FAIL:
            if re.search(pat, msg):
                kind = k
                break
        spans = d.get("spans", [])
        prim = [s for s in spans if s.get("is_primary")] or spans
        sec = [s for s in spans if not s.get("is_primary")]

        def org(s):
            if s.get("file_name", "").endswith(".rs") and not os.path.basename(s.get("file_name", "")).startswith("unit"):
                return {"where": "vstd", "file": s.get("file_name"), "line": s.get("line_start")}
            _, o = gen.locate(table, s["byte_start"])
            r = describe_origin(o, exp.files)
            r["gen_line"] = s.get("line_start")
            r["label"] = s.get("label")
            r["text"] = r.get("text") or (s.get("text") or [{}])[0].get("text", "").strip()
            return r

        def expand(sp):
            out = [sp]
            e = sp.get("expansion")
            while e and e.get("span"):
                out.append(e["span"])
                e = e["span"].get("expansion")
            return out

        po = [org(x) for s in prim for x in expand(s)]
        so = [org(x) for s in sec for x in expand(s)]
        if kind is None or any(re.search(p, msg) for p in TOOL_FAIL):
            undecided.append({"message": msg, "at": po[:1], "rendered": (d.get("rendered") or "")[:1500]})
            continue
        # name the obligation
        ob = {"kind": kind, "message": msg, "primary": po, "secondary": so, "rendered": (d.get("rendered") or "")[:3000]}
        clause = None
        site = None
        for o in po + so:
            if o.get("where") == "contract" and clause is None:
                clause = o
            if o.get("where") == "repo" and site is None:
                site = o
        for ch in d.get("children", []):
            for s in ch.get("spans", []):
                o = org(s)
                if o.get("where") == "contract" and clause is None:
                    clause = o
                if o.get("where") == "repo" and site is None:
                    site = o
        ob["clause"] = clause
        ob["site"] = site
        pre = next((o for o in po + so if (o.get("label") or "").startswith("failed precondition")), None)
        # byte span (in the generated file) of the clause that failed, when Verus points at one
        cs = next((x for s0 in spans for x in expand(s0) if re.match(r"failed (precondition|this postcondition)", x.get("label") or "")), None)
        if cs is None and kind == "invariant" and prim:
            cs = prim[0]
        if cs is not None and os.path.basename(cs.get("file_name", "")).startswith("unit"):
            ob["clause_span"] = (cs["byte_start"], cs["byte_end"])
        if clause:
            name = "%s:%s[%d]" % (clause["fn"], clause["kw"], clause["index"])
        elif pre is not None and pre.get("text"):
            txt = re.sub(r"\s+", " ", pre["text"].replace("requires", "").strip())
            core = re.sub(r"\s*//.*$", "", txt).rstrip(", ")
            tag = re.search(r"//\s*\[[A-Z0-9, ]+\]", txt)
            if len(core) > 100:
                core = core[:50] + " .. " + core[-46:]
            name = "env-requires[%s%s]" % (core, (" " + tag.group(0)) if tag else "")
        else:
            tl = next((o for o in po + so if o.get("where") == "template"), None)
            vs = next((o for o in po + so if o.get("where") == "vstd"), None)
            if tl:
                name = "template:%s:%s" % (tl.get("line"), (tl.get("text") or "")[:60])
            elif vs:
                name = "vstd:%s:%s" % (os.path.basename(vs["file"]), vs["line"])
            else:
                name = "implicit"
                if kind == "assertion" and prim:
                    # an assertion spliced in as a proof hint (or an assert! of the repo): name it by its text
                    try:
                        tx = prim[0]["text"][0]
                        frag = tx["text"][tx["highlight_start"] - 1:tx["highlight_end"] - 1]
                        if frag.strip():
                            name = "[%s]" % re.sub(r"\s+", " ", frag.strip())[:90]
                    except Exception:
                        pass
        if site:
            fnid = fn_at(exp, site)
            ob["in_fn"] = fnid
            ob["obligation"] = "%s %s @ %s" % (kind, name, fnid or ("%s:%s" % (site["file"], site["line"])))
        else:
            ob["in_fn"] = None
            ob["obligation"] = "%s %s" % (kind, name)
        failed.append(ob)
    return failed, undecided, warnings


def fn_at(exp, site):
    """Which extracted fn (by file + line range) contains this repo site."""
    best = None
    for f in exp.fns:
        if f["file"] == site["file"] and f["line"] <= (site["line"] or 0):
            if best is None or f["line"] > best["line"]:
                best = f
    return best["id"] if best else None


def run_unit(unit, rlimit=None, seed=None, vac=True, quiet=False, known=()):
    tmpl = os.path.join(VERIF, "vx", "units", unit + ".rs")
    outdir = os.path.join(OUT, "vx", unit)
    os.makedirs(outdir, exist_ok=True)
    res = {"unit": unit, "status": "undecided", "failed": [], "undecided": [], "verified": 0, "errors": 0}
    t0 = time.time()
    try:
        exp = gen.Expander(unit, tmpl)
        text, table = exp.expand()
    except gen.LostAnchor as e:
        res["undecided"].append({"message": "lost anchor: %s" % e})
        return res
    path = os.path.join(outdir, "unit.rs")
    open(path, "w").write(text)
    extra = []
    m = re.search(r"^//@rlimit (\d+)", open(tmpl).read(), re.M)
    if m and not rlimit:
        rlimit = int(m.group(1))
    elif m and rlimit:
        rlimit = max(rlimit, 2 * int(m.group(1)))
    if rlimit:
        extra += ["--rlimit", str(rlimit)]
    if seed is not None:
        extra += ["--smt-option", "smt.random_seed=%d" % (seed % 1000)]
    rc, diags, summary, stderr, wall = run_verus(path, extra)
    failed, undecided, warnings = classify(exp, table, text, diags)
    # A listed known finding must not hide a different violation: Verus reports one failing clause per call site /
    # function exit, so each known clause that failed is replaced by `true` (same byte length) and the unit is re-verified;
    # whatever fails then is reported in addition.
    rounds = 0
    cur = text
    while known and rounds < 6:
        spans = [f["clause_span"] for f in failed if f["obligation"] in known and f.get("clause_span") and not f.get("suppressed")]
        if not spans:
            break
        rounds += 1
        b = bytearray(cur.encode())
        for (a0, a1) in spans:
            if a1 - a0 >= 4:
                b[a0:a1] = b"true" + b" " * (a1 - a0 - 4)
        for f in failed:
            if f["obligation"] in known:
                f["suppressed"] = True
        cur = b.decode()
        kpath = os.path.join(outdir, "unit_known%d.rs" % rounds)
        open(kpath, "w").write(cur)
        rc_k, diags_k, summary_k, stderr_k, wall_k = run_verus(kpath, extra)
        f2, u2, _ = classify(exp, table, cur, diags_k)
        have = set(f["obligation"] for f in failed)
        failed += [f for f in f2 if f["obligation"] not in have]
        undecided += u2
        wall += wall_k
    res["known_rounds"] = rounds
    res.update({
        "failed": failed, "undecided": undecided, "warnings": warnings,
        "fns": exp.fns, "external_fns": exp.external_fns, "skipped": exp.skipped, "rewrites": exp.rewrites, "clauses": exp.clauses,
        "gen_path": path, "cmd": " ".join(verus_cmd(path, extra)), "wall_s": round(wall, 2),
    })
    if summary:
        vr = summary.get("verification-results", {})
        res["verified"] = vr.get("verified", 0)
        res["errors"] = vr.get("errors", 0)
        tm = summary.get("times-ms", {})
        res["solver_ms"] = tm.get("smt", {}).get("smt-run")
        res["total_ms"] = tm.get("total")
        slow = []
        for mod in tm.get("smt", {}).get("smt-run-module-times", []):
            for fb in mod.get("function-breakdown", []):
                if fb.get("time", 0) > 30000:
                    slow.append((fb["function"], fb["time"]))
        res["slow"] = slow
    else:
        if not undecided and not failed:
            undecided.append({"message": "verus produced no JSON summary (rc=%d): %s" % (rc, stderr[-800:])})
    # assumption scan over the generated file
    assumptions = []
    for i, ln in enumerate(text.split("\n"), 1):
        if ASSUME_PAT.search(ln) and not ln.strip().startswith("//@"):
            assumptions.append("%s:%d: %s" % (unit, i, ln.strip()[:160]))
    res["assumptions"] = assumptions
    # ASSUMED doc-comments (the contract text of each assumption)
    res["assumed_notes"] = [ln.strip().lstrip("/ ").strip() for ln in text.split("\n") if "ASSUMED" in ln]
    if re.search(r"\b(assume|admit)\s*\(", re.sub(r"//[^\n]*", "", text)):
        undecided.append({"message": "assume()/admit() present in generated unit: refused"})
    # ghost state on a field-less type is a constant: an environment that changes it is inconsistent (vx/lint.py)
    try:
        import lint as _lint
    except ImportError:
        from vx import lint as _lint
    for h in _lint.ghost_on_fieldless(text):
        undecided.append({"message": "environment refused: " + h})
    if rounds:
        # the counts reported are those of the re-verification with the listed known clauses blanked: what is claimed as
        # proved excludes exactly the known-finding obligations, which are counted separately
        summary = summary_k
        if summary:
            vr_k = summary.get("verification-results", {})
            res["verified"] = vr_k.get("verified", 0)
            res["errors"] = vr_k.get("errors", 0)
        res["known_excluded"] = len([f for f in failed if f.get("suppressed")])
    if undecided:
        res["status"] = "undecided"
    elif [f for f in failed if not f.get("suppressed")]:
        res["status"] = "violation"
    elif summary and summary.get("verification-results", {}).get("success") and res["verified"] > 0:
        res["status"] = "pass"
    else:
        res["undecided"].append({"message": "no success flag from verus (rc=%d)" % rc})
    # vacuity run: every extracted fn body must be reachable under its requires
    if vac and res["status"] == "pass":
        vexp = gen.Expander(unit, tmpl, vac=True)
        vtext, vtable = vexp.expand()
        vpath = os.path.join(outdir, "unit_vac.rs")
        open(vpath, "w").write(vtext)
        rc2, d2, s2, e2, w2 = run_verus(vpath, ["--multiple-errors", "1"])
        hit = set()
        for d in d2:
            if d.get("level") != "error":
                continue
            for s in d.get("spans", []):
                _, o = gen.locate(vtable, s["byte_start"])
                if o and o[0] == "vac":
                    hit.add(o[1])
        missing = [f for f in vexp.vac_sites if f not in hit]
        res["vacuity"] = {"sites": len(vexp.vac_sites), "refuted": len(hit), "vacuous": missing, "wall_s": round(w2, 2)}
        if missing:
            res["status"] = "undecided"
            res["undecided"].append({"message": "vacuity guard: assert(false) verified in %s (contradictory requires/environment)" % ", ".join(missing)})
    res["wall_s_total"] = round(time.time() - t0, 2)
    return res


if __name__ == "__main__":
    r = run_unit(sys.argv[1], vac="--novac" not in sys.argv)
    brief = {k: r.get(k) for k in ("unit", "status", "verified", "errors", "clauses", "solver_ms", "wall_s", "vacuity", "slow")}
    print(json.dumps(brief, indent=1))
    for f in r["failed"]:
        print("FAILED:", f["obligation"])
        if "-v" in sys.argv:
            print(f["rendered"])
    for u in r["undecided"]:
        print("UNDECIDED:", u["message"])
        if u.get("rendered"):
            print(u["rendered"])
    if "-s" in sys.argv:
        print("skipped:", *r.get("skipped", []), sep="\n  ")
        print("rewrites:", *r.get("rewrites", []), sep="\n  ")
        print("assumptions:", *r.get("assumptions", []), sep="\n  ")
