"""Minimal Rust lexer + item finder used to extract items *verbatim* from /repo.

Only what extraction needs: comments, strings, raw strings, chars vs lifetimes,
bracket matching, item boundaries, fn signature anatomy, loop heads.
"""
import re

IDENT_START = set("abcdefghijklmnopqrstuvwxyzABCDEFGHIJKLMNOPQRSTUVWXYZ_")
IDENT_CONT = IDENT_START | set("0123456789")


class Tok:
    __slots__ = ("kind", "text", "start", "end")

    def __init__(self, kind, text, start, end):
        self.kind, self.text, self.start, self.end = kind, text, start, end

    def __repr__(self):
        return f"Tok({self.kind},{self.text!r},{self.start})"


def lex(src):
    """Return list of tokens. kinds: ident, punct, str, char, life, num, lcomment, bcomment, doc."""
    toks = []
    i, n = 0, len(src)
    while i < n:
        c = src[i]
        if c in " \t\r\n":
            i += 1
            continue
        if src.startswith("//", i):
            j = src.find("\n", i)
            if j < 0:
                j = n
            text = src[i:j]
            kind = "doc" if (text.startswith("///") and not text.startswith("////")) or text.startswith("//!") else "lcomment"
            toks.append(Tok(kind, text, i, j))
            i = j
            continue
        if src.startswith("/*", i):
            depth, j = 1, i + 2
            while j < n and depth:
                if src.startswith("/*", j):
                    depth += 1
                    j += 2
                elif src.startswith("*/", j):
                    depth -= 1
                    j += 2
                else:
                    j += 1
            toks.append(Tok("bcomment", src[i:j], i, j))
            i = j
            continue
        # raw strings / byte strings
        m = re.compile(r'(?:b|c)?r(#*)"').match(src, i)
        if m and (i == 0 or src[i - 1] not in IDENT_CONT):
            hashes = m.group(1)
            close = '"' + hashes
            j = src.find(close, m.end())
            if j < 0:
                raise ValueError("unterminated raw string at %d" % i)
            j += len(close)
            toks.append(Tok("str", src[i:j], i, j))
            i = j
            continue
        if c == '"' or (c in "bc" and i + 1 < n and src[i + 1] == '"'):
            j = i + (1 if c == '"' else 2)
            while j < n and src[j] != '"':
                if src[j] == "\\":
                    j += 2
                else:
                    j += 1
            j += 1
            toks.append(Tok("str", src[i:j], i, j))
            i = j
            continue
        if c == "'" or (c == "b" and i + 1 < n and src[i + 1] == "'"):
            k = i + (1 if c == "'" else 2)
            # char literal or lifetime?
            if k < n and src[k] == "\\":
                j = k + 2
                while j < n and src[j] != "'":
                    j += 1
                j += 1
                toks.append(Tok("char", src[i:j], i, j))
                i = j
                continue
            if k + 1 < n and src[k + 1] == "'" :
                j = k + 2
                toks.append(Tok("char", src[i:j], i, j))
                i = j
                continue
            # multi-byte char literal like 'é' or '\u{..}' handled above; lifetime otherwise
            if k < n and src[k] in IDENT_START and c == "'":
                j = k
                while j < n and src[j] in IDENT_CONT:
                    j += 1
                if j < n and src[j] == "'" and j - k == 1:
                    j += 1
                    toks.append(Tok("char", src[i:j], i, j))
                else:
                    toks.append(Tok("life", src[i:j], i, j))
                i = j
                continue
            # non-ascii char literal
            j = src.find("'", k)
            if j < 0 or j - k > 8:
                raise ValueError("bad char literal at %d" % i)
            j += 1
            toks.append(Tok("char", src[i:j], i, j))
            i = j
            continue
        if c in IDENT_START:
            j = i + 1
            while j < n and src[j] in IDENT_CONT:
                j += 1
            # raw identifiers r#foo
            toks.append(Tok("ident", src[i:j], i, j))
            i = j
            continue
        if c.isdigit():
            j = i + 1
            while j < n and (src[j] in IDENT_CONT or (src[j] == "." and j + 1 < n and src[j + 1].isdigit())):
                j += 1
            toks.append(Tok("num", src[i:j], i, j))
            i = j
            continue
        for p in ("..=", "...", "<<=", ">>=", "->", "=>", "::", "..", "&&", "||", "==", "!=", "<=", ">=", "+=", "-=", "*=", "/=", "%=", "^=", "&=", "|=", "<<"):
            if src.startswith(p, i):
                toks.append(Tok("punct", p, i, i + len(p)))
                i += len(p)
                break
        else:
            toks.append(Tok("punct", c, i, i + 1))
            i += 1
    return toks


OPEN = {"(": ")", "[": "]", "{": "}"}
CLOSE = {")": "(", "]": "[", "}": "{"}
TRIVIA = ("lcomment", "bcomment", "doc")


def code_toks(toks):
    return [t for t in toks if t.kind not in TRIVIA]


def match_close(toks, i):
    """toks[i] is an opening bracket; return index of its matching close."""
    depth = 0
    for j in range(i, len(toks)):
        t = toks[j]
        if t.kind == "punct":
            if t.text in OPEN:
                depth += 1
            elif t.text in CLOSE:
                depth -= 1
                if depth == 0:
                    return j
    raise ValueError("unbalanced bracket at %d" % toks[i].start)


def skip_angles(toks, i):
    """toks[i] is '<'; return index after the matching '>' (handles '->' tokens, '>>' split)."""
    depth = 0
    j = i
    while j < len(toks):
        t = toks[j]
        if t.kind == "punct":
            if t.text == "<":
                depth += 1
            elif t.text == ">":
                depth -= 1
                if depth == 0:
                    return j + 1
            elif t.text == ">=" or t.text == ">>=":
                pass
            elif t.text in OPEN:
                j = match_close(toks, j)
        j += 1
    raise ValueError("unbalanced angle at %d" % toks[i].start)


ITEM_KW = {"fn", "struct", "enum", "union", "impl", "trait", "mod", "use", "const", "static", "type", "macro_rules", "extern"}
QUALS = {"pub", "unsafe", "async", "default", "const", "extern"}


class Item:
    """A syntactic item: [attrs_start, end) covers attributes+docs; kw_start is the keyword/visibility start."""

    def __init__(self, kind, name, header, toks, ti0, ti_kw, ti_open, ti_end, src):
        self.kind, self.name, self.header = kind, name, header
        self.toks = toks  # all tokens (code only) of the file
        self.ti0, self.ti_kw, self.ti_open, self.ti_end = ti0, ti_kw, ti_open, ti_end
        self.src = src
        self.attrs = []  # list of (text, start, end)

    @property
    def start(self):
        return self.toks[self.ti0].start

    @property
    def kw_start(self):
        return self.toks[self.ti_kw].start

    @property
    def end(self):
        return self.toks[self.ti_end].end

    def text(self):
        return self.src[self.start:self.end]

    def children(self):
        if self.ti_open is None or self.kind not in ("impl", "trait", "mod"):
            return []
        return parse_items(self.toks, self.ti_open + 1, self.ti_end, self.src)


def norm(s):
    s = re.sub(r"//[^\n]*", "", s)
    return re.sub(r"\s+", " ", s).strip()


def parse_items(toks, i, end, src):
    """Parse items in toks[i:end] (code tokens only)."""
    items = []
    while i < end:
        ti0 = i
        attrs = []
        # attributes
        while i < end and toks[i].text == "#" and toks[i].kind == "punct":
            j = i + 1
            if toks[j].text == "!":
                j += 1
            if toks[j].text != "[":
                break
            k = match_close(toks, j)
            attrs.append((src[toks[i].start:toks[k].end], toks[i].start, toks[k].end))
            i = k + 1
        ti_kw = i
        # visibility & qualifiers
        j = i
        while j < end and toks[j].kind == "ident" and toks[j].text in QUALS:
            if toks[j].text == "pub" and j + 1 < end and toks[j + 1].text == "(":
                j = match_close(toks, j + 1) + 1
                continue
            if toks[j].text == "extern" and j + 1 < end and toks[j + 1].kind == "str":
                j += 2
                continue
            if toks[j].text == "const" and j + 1 < end and toks[j + 1].kind == "ident" and toks[j + 1].text not in ITEM_KW:
                break  # const item
            if toks[j].text == "unsafe" and toks[j + 1].text == "{":
                break
            j += 1
        if j >= end:
            break
        kw = toks[j]
        if kw.kind != "ident" or kw.text not in ITEM_KW:
            # macro invocation item like  foo! { .. }  or stray tokens: skip to next ; or matching brace
            k = j
            while k < end:
                if toks[k].kind == "punct" and toks[k].text in OPEN:
                    k = match_close(toks, k)
                    if toks[k].text == "}":
                        break
                elif toks[k].text == ";":
                    break
                k += 1
            it = Item("other", None, None, toks, ti0, ti_kw, None, min(k, end - 1), src)
            it.attrs = attrs
            items.append(it)
            i = k + 1
            continue
        kind = kw.text
        name = None
        ti_open = None
        k = j + 1
        if kind == "macro_rules":
            # macro_rules! name { ... }
            name = toks[k + 1].text
            k = k + 2
            m = match_close(toks, k)
            ti_end = m
            if toks[m].text != "}" and m + 1 < end and toks[m + 1].text == ";":
                ti_end = m + 1
            it = Item(kind, name, None, toks, ti0, ti_kw, None, ti_end, src)
        elif kind in ("use", "const", "static", "type") or (kind == "extern" and toks[k].text == "crate"):
            if kind in ("const", "static", "type"):
                kk = k
                if toks[kk].text == "mut":
                    kk += 1
                name = toks[kk].text
            while k < end and toks[k].text != ";":
                if toks[k].kind == "punct" and toks[k].text in OPEN:
                    k = match_close(toks, k)
                k += 1
            it = Item(kind, name, None, toks, ti0, ti_kw, None, k, src)
        else:
            if kind in ("fn", "struct", "enum", "union", "trait", "mod"):
                name = toks[k].text
            # find body '{' or terminating ';'
            while k < end:
                t = toks[k]
                if t.kind == "punct":
                    if t.text == "{":
                        ti_open = k
                        break
                    if t.text == ";":
                        break
                    if t.text in ("(", "["):
                        k = match_close(toks, k)
                k += 1
            if ti_open is not None:
                ti_end = match_close(toks, ti_open)
                header = norm(src[toks[j].start:toks[ti_open].start])
            else:
                ti_end = k
                header = norm(src[toks[j].start:toks[k].start])
            if kind in ("struct",) and ti_open is None:
                pass
            it = Item(kind, name, header, toks, ti0, ti_kw, ti_open, ti_end, src)
        it.attrs = attrs
        items.append(it)
        i = it.ti_end + 1
    return items


def parse_file(src):
    toks = code_toks(lex(src))
    return toks, parse_items(toks, 0, len(toks), src)


def is_test_item(it):
    for a, _, _ in it.attrs:
        a = norm(a)
        if a.startswith("#[cfg(") and re.search(r"\btest\b", a) and "not(test" not in a:
            return True
    return False


def walk(items, into_mods=True):
    """Yield (path_prefix, item) for all items, descending into non-test mods."""
    for it in items:
        yield it
        if into_mods and it.kind == "mod" and it.ti_open is not None and not is_test_item(it):
            for c in walk(it.children()):
                yield c


class FnAnatomy:
    """Positions (absolute byte offsets in src) of parts of a fn item."""

    def __init__(self, it):
        toks = it.toks
        j = it.ti_kw
        while toks[j].text != "fn":
            j += 1
        self.fn_kw = j
        k = j + 2
        if toks[k].text == "<":
            k = skip_angles(toks, k)
        assert toks[k].text == "(", (it.name, toks[k])
        self.params_open = k
        self.params_close = match_close(toks, k)
        k = self.params_close + 1
        self.ret = None  # (start,end) byte offsets of return type
        body_open = it.ti_open
        stop = body_open if body_open is not None else it.ti_end
        self.where_start = None
        if toks[k].text == "->":
            rs = k + 1
            m = rs
            while m < stop and not (toks[m].kind == "ident" and toks[m].text == "where"):
                if toks[m].kind == "punct" and toks[m].text in ("(", "["):
                    m = match_close(toks, m)
                m += 1
            self.ret = (toks[rs].start, toks[m - 1].end)
            k = m
        if k < stop and toks[k].text == "where":
            self.where_start = toks[k].start
        self.sig_end = toks[stop].start  # offset of '{' or ';'
        self.has_body = body_open is not None
        self.body_open = toks[body_open].start if body_open is not None else None
        self.body_close = toks[it.ti_end].start if body_open is not None else None
        self.item = it
        # first param self-kind
        p = self.params_open + 1
        self.self_kind = None
        ptxt = [t.text for t in toks[p:min(p + 4, self.params_close)]]
        if ptxt[:1] == ["self"]:
            self.self_kind = "self"
        elif ptxt[:2] == ["mut", "self"]:
            self.self_kind = "mut self"
        elif ptxt[:2] == ["&", "self"]:
            self.self_kind = "&self"
        elif ptxt[:3] == ["&", "mut", "self"]:
            self.self_kind = "&mut self"
        elif len(ptxt) >= 3 and ptxt[0] == "&" and ptxt[2] == "self":
            self.self_kind = "&self"
        elif len(ptxt) >= 4 and ptxt[0] == "&" and ptxt[2] == "mut" and ptxt[3] == "self":
            self.self_kind = "&mut self"

    def loops(self):
        """Return list of (kw_tok_index, body_open_tok_index) for loops in the body, in source order."""
        it = self.item
        toks = it.toks
        out = []
        k = it.ti_open + 1
        while k < it.ti_end:
            t = toks[k]
            if t.kind == "ident" and t.text in ("for", "while", "loop"):
                # exclude `for<'a>` HRTB and `impl X for Y` (not in fn bodies normally)
                if t.text == "for" and toks[k + 1].text == "<":
                    k += 1
                    continue
                m = k + 1
                # skip the pattern of `for PAT in` / `while let PAT =` (may contain braces)
                sep = None
                if t.text == "for":
                    sep = "in"
                elif t.text == "while" and toks[m].text == "let":
                    sep = "="
                if sep:
                    while m < it.ti_end and toks[m].text != sep:
                        if toks[m].kind == "punct" and toks[m].text in OPEN:
                            m = match_close(toks, m)
                        m += 1
                    m += 1
                while m < it.ti_end:
                    tt = toks[m]
                    if tt.kind == "punct":
                        if tt.text == "{":
                            break
                        if tt.text in ("(", "["):
                            m = match_close(toks, m)
                    m += 1
                out.append((k, m))
            k += 1
        return out
