// Demonstration for fixed finding F10 (append inside `mod test` of crates/radicle-term/src/table.rs;
// before the fix the first assertion panics ("byte index 2 is not a char boundary") and the second fails (width 3 > 2))
    #[test]
    fn test_truncate_trailing_whitespace() {
        // U+3000 (ideographic space) is three bytes and two columns wide.
        let s = "a\u{3000}\u{3000}";
        let t = s.truncate(2, "…");
        assert!(Cell::width(&t) <= 2, "{t:?}");
        // Empty delimiter: the kept whitespace must still fit.
        let t = "ab  ".truncate(2, "");
        assert!(Cell::width(&t) <= 2, "{t:?}");
        // The common case is unchanged: a space takes the place of the delimiter.
        assert_eq!("a  ".truncate(2, "…"), String::from("a "));
    }
