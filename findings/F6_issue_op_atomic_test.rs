// Demonstration for fixed finding F6 (append inside `mod test` of crates/radicle/src/cob/issue.rs;
// fails before the fix -- the rejected change leaves the title of its first action behind -- passes after)
    #[test]
    fn test_rejected_op_leaves_no_trace() {
        use crate::cob::store::Cob as _;

        let test::setup::NodeWithRepo { node, repo, .. } = test::setup::NodeWithRepo::default();
        let mut issues = Cache::no_cache(&*repo).unwrap();
        let issue = issues
            .create("My first issue", "Blah blah blah.", &[], &[], [], &node.signer)
            .unwrap();
        let mut state: Issue = (*issue).clone();
        let before = state.clone();
        let identity = repo.identity_head().unwrap();
        // A change whose first action is fine, and whose second action is rejected.
        let op = Op::new(
            arbitrary::oid(),
            nonempty::NonEmpty::from_vec(vec![
                Action::Edit { title: "New title".to_owned() },
                Action::Edit { title: "Bad\ntitle".to_owned() },
            ])
            .unwrap(),
            *node.signer.public_key(),
            Timestamp::from_secs(1),
            Some(identity),
            cob::Manifest::new(TYPENAME.clone(), cob::Version::default()),
        );
        state.op(op, [], &*repo).unwrap_err();

        assert_eq!(state, before, "a rejected change must not partially take effect");
    }
