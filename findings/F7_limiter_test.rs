// Demonstration for fixed finding F7 (append inside `mod test` of crates/radicle-node/src/service/limiter.rs;
// panics before the fix commit, passes after)
    #[test]
    fn test_limiter_clock_goes_backwards() {
        let mut r = RateLimiter::default();
        let t = (3, 0.2);
        let a = HostName::Dns(String::from("seed.radicle.xyz"));
        assert_eq!(r.limit(a.clone(), None, &t, LocalTime::from_secs(5)), false);
        assert_eq!(r.limit(a.clone(), None, &t, LocalTime::from_secs(4)), false);
    }
