// Demonstration for fixed finding F3 (append inside `pub mod pktline` of crates/radicle-node/src/worker/upload_pack.rs;
// panics (slice index) before the fix, passes after)
    #[cfg(test)]
    mod vx_f3 {
        use super::*;
        #[test]
        fn short_and_long_lengths_are_rejected_not_panics() {
            for hdr in [&b"0000"[..], b"0001", b"0003", b"0401", b"ffff"] {
                let mut input = io::Cursor::new(hdr.to_vec());
                assert!(git_request(&mut input).is_err());
            }
        }
    }
