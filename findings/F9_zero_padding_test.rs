// F9 (C15): a Pong/Ping with non-zero padding decodes but re-encodes to different bytes.
// Add to `mod tests` of crates/radicle-node/src/wire/message.rs: fails before the fix commit, passes after.
    #[test]
    fn test_pong_nonzero_padding_is_not_canonical() {
        // type = Pong (12), one byte of padding that is not zero
        let bytes = [0x00, 0x0c, 0x00, 0x01, 0xff];
        match wire::deserialize::<Message>(&bytes) {
            Ok(msg) => assert_eq!(wire::serialize(&msg), bytes.to_vec(), "decoded {msg:?} re-encodes differently"),
            Err(_) => {}
        }
    }
