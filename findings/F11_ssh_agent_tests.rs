// Demonstration for fixed finding F11 (append inside `mod test` of crates/radicle-crypto/src/ssh.rs;
// both tests panic before the fix, pass after)
    #[derive(Clone)]
    struct ReplyStream(Vec<u8>);

    impl ClientStream for ReplyStream {
        fn connect<P>(_path: P) -> Result<AgentClient<Self>, Error>
        where
            P: AsRef<std::path::Path> + Send,
        {
            panic!("This function should never be called!")
        }

        fn request(&mut self, _buf: &[u8]) -> Result<Buffer, Error> {
            Ok(Buffer::new(self.0.clone()))
        }
    }

    #[test]
    fn test_agent_empty_identities_reply() {
        let mut agent = AgentClient::connect(ReplyStream(vec![]));
        let keys = agent.request_identities::<PublicKey>();
        assert!(keys.map(|k| k.is_empty()).unwrap_or(true));
    }

    #[test]
    fn test_agent_short_signature_reply() {
        use std::str::FromStr;
        let pk = PublicKey::from_str("z6MktWkM9vcfysWFq1c2aaLjJ6j4PYYg93TLPswR4qtuoAeT").unwrap();
        // SIGN_RESPONSE, string { string "ssh", string [9] }: a one-byte "signature"
        let reply = vec![14, 0, 0, 0, 12, 0, 0, 0, 3, b's', b's', b'h', 0, 0, 0, 1, 9];
        let mut agent = AgentClient::connect(ReplyStream(reply));
        assert!(agent.sign(&pk, &[1, 2, 3]).is_err());
    }
