// F13 (C15): a node announcement whose trailing user agent is truncated decodes (with the default agent).
// Add to `mod tests` of crates/radicle-node/src/wire/message.rs: fails before the fix commit, passes after.
    #[test]
    fn test_node_ann_truncated_agent_is_not_canonical() {
        let signer = Device::mock();
        let ann = AnnouncementMessage::Node(NodeAnnouncement {
            version: 1,
            features: Default::default(),
            alias: radicle::node::Alias::new("alice"),
            addresses: BoundedVec::new(),
            timestamp: arbitrary::gen(1),
            nonce: 7,
            agent: UserAgent::default(),
        });
        let msg = Message::Announcement(ann.signed(&signer));
        let full = wire::serialize(&msg);
        // `/radicle/` is 9 bytes, prefixed by its length: cut the last three bytes of the agent string.
        let without_agent = &full[..full.len() - 10];
        let truncated = &full[..full.len() - 3];

        // The user agent may be left out altogether (older nodes).
        assert_eq!(wire::deserialize::<Message>(without_agent).unwrap(), msg);
        assert_eq!(wire::deserialize::<Message>(&full).unwrap(), msg);

        match wire::deserialize::<Message>(truncated) {
            Ok(decoded) => {
                let re = wire::serialize(&decoded);
                assert!(
                    re == truncated || truncated == without_agent,
                    "bytes with a truncated agent decoded to {decoded:?}, which re-encodes differently"
                );
            }
            Err(_) => {}
        }
    }

