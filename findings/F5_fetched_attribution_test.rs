// Demonstration for fixed finding F5 (append to crates/radicle-node/src/tests.rs; panics on the
// `debug_assert_eq!(fetching.from, remote)` in Service::fetched before the fix, passes after)
#[test]
fn test_late_fetch_result_from_other_peer_is_ignored() {
    let storage = arbitrary::nonempty_storage(1);
    let rid = *storage.repos.keys().next().unwrap();
    let mut alice = Peer::with_storage("alice", [7, 7, 7, 7], storage);
    let bob = Peer::new("bob", [8, 8, 8, 8]);
    let eve = Peer::new("eve", [9, 9, 9, 9]);

    alice.connect_to(&bob);
    alice.connect_to(&eve);

    // A fetch from Bob is started..
    let (send, _recv1) = chan::bounded::<node::FetchResult>(1);
    alice.command(Command::Fetch(rid, bob.id, DEFAULT_TIMEOUT, send));
    assert_matches!(alice.fetches().next(), Some((rid_, nid_)) if rid_ == rid && nid_ == bob.id);

    // ..Bob disconnects, which cancels the fetch, and then reconnects.
    alice.disconnected(
        bob.id,
        Link::Outbound,
        &DisconnectReason::Connection(Arc::new(io::Error::from(io::ErrorKind::ConnectionReset))),
    );
    alice.connect_to(&bob);

    // A new fetch of the same repository is started, with Eve this time.
    let (send, _recv2) = chan::bounded::<node::FetchResult>(1);
    alice.command(Command::Fetch(rid, eve.id, DEFAULT_TIMEOUT, send));
    assert_matches!(alice.fetches().next(), Some((rid_, nid_)) if rid_ == rid && nid_ == eve.id);

    // The result of the cancelled fetch arrives late: it must not be applied to Eve's fetch.
    alice.fetched(
        rid,
        bob.id,
        Err(worker::FetchError::Io(io::ErrorKind::ConnectionReset.into())),
    );
    assert_matches!(
        alice.service.fetching().get(&rid),
        Some(fetching) if fetching.from == eve.id
    );
}
