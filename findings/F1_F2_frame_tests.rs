// Demonstration for the fixed findings F1/F2 (append to crates/radicle-node/src/wire/frame.rs; fails before d75b105/534ef28, passes after)
#[cfg(test)]
mod vx_f1 {
    use super::*;
    use crate::wire::Decode;
    #[test]
    fn huge_declared_length_does_not_allocate() {
        // rad\x01, stream id 2 (gossip, outbound), varint 0xFF.. = 2^62-1 declared payload bytes, no payload
        let bytes = [b'r', b'a', b'd', 1, 0x02, 0xFF, 0xFF, 0xFF, 0xFF, 0xFF, 0xFF, 0xFF, 0xFF];
        let mut c = io::Cursor::new(&bytes[..]);
        let r = Frame::<Message>::decode(&mut c);
        assert!(matches!(r, Err(ref e) if e.is_eof()), "{r:?}");
    }
    #[test]
    fn complete_frame_with_truncated_message_is_an_error_not_incomplete() {
        // complete gossip frame: payload length 1, payload = [0x00] (half of a u16 message type)
        let bytes = [b'r', b'a', b'd', 1, 0x02, 0x01, 0x00];
        let mut c = io::Cursor::new(&bytes[..]);
        let r = Frame::<Message>::decode(&mut c);
        assert!(matches!(r, Err(ref e) if !e.is_eof()), "{r:?}");
    }
}
