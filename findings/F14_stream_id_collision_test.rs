// F14 (C13): a peer can crash the node by opening a stream under an id from OUR half of the stream id space.
// Add to `mod test` of crates/radicle-node/src/wire/protocol.rs. Before the fix it panics with
// "Streams::open: stream was already open" (protocol.rs, Streams::open); after the fix it passes.
//
// The `Control::Open { stream }` handler (Wire::received, SessionEvent::Data) hands the id chosen by the peer to
// `Streams::register`; `Io::Fetch` later calls `Streams::open`, whose id is `StreamId::git(link).nth(seq + 1)`.

    #[test]
    fn test_remote_cannot_claim_our_stream_ids() {
        let mut streams = Streams::new(Link::Outbound);
        let ours_next = frame::StreamId::git(Link::Outbound).nth(1).unwrap();
        let cfg = || ChannelsConfig::new(std::time::Duration::from_secs(1));
        // What the `Control::Open` handler does with the id sent by the peer.
        let theirs = streams.register(ours_next, cfg());
        // What `Io::Fetch` does next: must not panic.
        let (id, _ours) = streams.open(cfg());
        assert!(theirs.is_none());
        assert_eq!(id, ours_next);
        // The peer's own half of the id space still works, once per id.
        let peer_id = frame::StreamId::git(Link::Inbound).nth(1).unwrap();
        assert!(streams.register(peer_id, cfg()).is_some());
        assert!(streams.register(peer_id, cfg()).is_none());
    }
