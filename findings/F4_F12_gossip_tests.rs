// Demonstrations for fixed findings F4 / F12 (append to crates/radicle-node/src/tests.rs).
// Before the fixes: the first two tests panic inside the gossip store (assertions), the third fails.

#[test]
fn test_subscribe_inverted_time_range_does_not_panic() {
    let mut alice = Peer::new("alice", [7, 7, 7, 7]);
    let bob = Peer::new("bob", [8, 8, 8, 8]);

    alice.connect_to(&bob);
    alice.receive(
        bob.id(),
        Message::Subscribe(Subscribe {
            filter: Filter::default(),
            since: Timestamp::try_from(2u64).unwrap(),
            until: Timestamp::try_from(1u64).unwrap(),
        }),
    );
}

#[test]
fn test_announcement_with_zero_timestamp_does_not_panic() {
    let mut alice = Peer::new("alice", [7, 7, 7, 7]);
    let bob = Peer::new("bob", [8, 8, 8, 8]);

    alice.connect_to(&bob);
    alice.receive(
        bob.id(),
        Message::inventory(
            InventoryAnnouncement {
                inventory: BoundedVec::new(),
                timestamp: Timestamp::MIN,
            },
            bob.signer(),
        ),
    );
}

#[test]
fn test_refs_announcement_private_not_replayed_on_subscribe() {
    let tmp = tempfile::tempdir().unwrap();
    let mut alice = Peer::with_storage("alice", [7, 7, 7, 7], MockStorage::empty());
    let eve = Peer::with_storage(
        "eve",
        [8, 8, 8, 8],
        Storage::open(tmp.path().join("eve"), fixtures::user()).unwrap(),
    );
    let bob = {
        let mut rng = fastrand::Rng::new();
        let signer = Device::mock_rng(&mut rng);
        let storage = fixtures::storage(tmp.path().join("bob"), &signer).unwrap();

        Peer::config(
            "bob",
            [9, 9, 9, 9],
            storage,
            peer::Config {
                signer,
                rng,
                ..peer::Config::default()
            },
        )
        .initialized()
    };
    let bob_inv = bob.inventory().into_iter().collect::<Vec<_>>();

    alice.seed(&bob_inv[0], policy::Scope::All).unwrap();
    alice.connect_to(&bob);
    alice.connect_to(&eve);

    // The repo is not visible to Eve.
    let repo1 = {
        let mut repo = gen::<MockRepository>(1);
        repo.doc.doc = repo
            .doc
            .doc
            .with_edits(|doc| {
                doc.visibility = Visibility::Private { allow: [].into() };
            })
            .unwrap();
        repo
    };
    alice.storage_mut().repos.insert(bob_inv[0], repo1);
    alice.elapse(service::GOSSIP_INTERVAL);
    alice.messages(eve.id()).for_each(drop);
    // Alice stores Bob's refs announcement about the private repository..
    alice
        .receive(bob.id(), bob.refs_announcement(bob_inv[0]))
        .elapse(service::GOSSIP_INTERVAL);
    alice.messages(eve.id()).for_each(drop);
    // ..and Eve asks for the stored history.
    alice.receive(eve.id(), Message::Subscribe(Subscribe::all()));

    assert!(
        !alice.messages(eve.id()).any(|m| matches!(
            m,
            Message::Announcement(Announcement {
                message: AnnouncementMessage::Refs(RefsAnnouncement { rid, .. }),
                ..
            }) if rid == bob_inv[0]
        )),
        "The refs announcement of the private repository is not replayed to Eve"
    );
}
