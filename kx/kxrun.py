"""kx engine: Kani on the real crates.

/repo's working tree is rsync'ed to a scratch copy (stable path so cargo's incremental cache stays valid),
every harness file under /verif/kx/harness is appended to the source file named in its `//@kx` header, and
`cargo kani` compiles the real crate with its real dependencies.
"""
import json
import os
import re
import subprocess
import sys
import time

VERIF = os.path.dirname(os.path.dirname(os.path.abspath(__file__)))
REPO = os.environ.get("VERIF_REPO", "/repo")
CACHE = os.path.join(VERIF, ".cache", "kx")
SRC = os.path.join(CACHE, "src")
TARGET = os.path.join(CACHE, "target")
HARNESS_DIR = os.path.join(VERIF, "kx", "harness")
FLAGS = ["-Z", "function-contracts", "-Z", "stubbing"]

_synced = False


def sync():
    """rsync the working tree and append all harness modules. Idempotent per process."""
    global _synced
    if _synced:
        return []
    os.makedirs(SRC, exist_ok=True)
    subprocess.run(["rsync", "-a", "--delete", "--exclude", "target", "--exclude", ".git", REPO + "/", SRC + "/"], check=True)
    applied = []
    for fn in sorted(os.listdir(HARNESS_DIR)):
        if not fn.endswith(".rs"):
            continue
        text = open(os.path.join(HARNESS_DIR, fn)).read()
        m = re.match(r"//@kx file=(\S+) package=(\S+)", text)
        if not m:
            continue
        dst = os.path.join(SRC, m.group(1))
        if not os.path.exists(dst):
            raise FileNotFoundError("harness %s: anchor file %s missing in /repo" % (fn, m.group(1)))
        cur = open(dst).read()
        # attribute insertions:  //@attr <fn-regex>  followed by attribute lines until //@endattr
        for am in re.finditer(r"//@attr (.+?)\n((?://[^\n]*\n)+?)//@endattr", text):
            pat, lines = am.group(1).strip(), am.group(2)
            attrs = "".join(l[2:].lstrip(" ") if l.startswith("// ") else l[2:] for l in lines.splitlines(True))
            mm = re.search(pat, cur)
            if not mm:
                raise FileNotFoundError("harness %s: attribute anchor /%s/ not found in %s" % (fn, pat, m.group(1)))
            ls = cur.rfind("\n", 0, mm.start()) + 1
            indent = re.match(r"\s*", cur[ls:]).group(0)
            cur = cur[:ls] + "".join(indent + a for a in attrs.splitlines(True)) + cur[ls:]
        cur += "\n" + text
        # keep mtime stable when content is unchanged (cargo fingerprints)
        open(dst, "w").write(cur)
        applied.append(fn)
    # restore mtimes of harness-appended files to content hash based stable value is unnecessary: cargo uses mtime,
    # rsync -a resets them to /repo's each run and we rewrite; to avoid needless rebuilds set mtime = max(repo mtime, harness mtime)
    for fn in applied:
        text = open(os.path.join(HARNESS_DIR, fn)).read()
        m = re.match(r"//@kx file=(\S+) package=(\S+)", text)
        dst = os.path.join(SRC, m.group(1))
        mt = max(os.path.getmtime(os.path.join(REPO, m.group(1))), os.path.getmtime(os.path.join(HARNESS_DIR, fn)))
        os.utime(dst, (mt, mt))
    _synced = True
    return applied


def parse_output(out):
    """Split cargo-kani output per harness."""
    res = {}
    parts = re.split(r"Checking harness ([^\s.]+(?:::[^\s.]+)*)\.\.\.", out)
    # parts: [pre, name1, body1, name2, body2...]
    for i in range(1, len(parts), 2):
        name, body = parts[i], parts[i + 1]
        r = {"name": name, "ok": "VERIFICATION:- SUCCESSFUL" in body, "failed_checks": [], "raw_tail": body[-3000:]}
        m = re.search(r"\*\* (\d+) of (\d+) failed", body)
        if m:
            r["n_failed"], r["n_checks"] = int(m.group(1)), int(m.group(2))
        m = re.search(r"\*\* (\d+) of (\d+) cover properties satisfied", body)
        if m:
            r["covers_sat"], r["covers"] = int(m.group(1)), int(m.group(2))
        for fm in re.finditer(r"Failed Checks: (.*)\n\s*File: \"([^\"]+)\", line (\d+), in (\S+)", body):
            r["failed_checks"].append({"desc": fm.group(1).strip(), "file": fm.group(2), "line": int(fm.group(3)), "fn": fm.group(4)})
        m = re.search(r"Verification Time: ([0-9.]+)s", body)
        if m:
            r["time_s"] = float(m.group(1))
        r["unwind_fail"] = bool(re.search(r"unwinding assertion", body) and "FAILURE" in body and re.search(r"Failed Checks: unwinding assertion", body))
        res[name.split("::")[-1]] = r
    return res


_cache = {}


def run_package(package, harnesses, timeout=3600, jobs=4, features=None):
    key = (package, tuple(sorted(harnesses)))
    if key in _cache:
        return _cache[key]
    sync()
    cmd = ["cargo", "kani", "-p", package] + FLAGS
    if features:
        cmd += ["--features", features]
    for h in harnesses:
        cmd += ["--harness", h]
    if len(harnesses) > 1:
        cmd += ["-j", str(min(jobs, len(harnesses))), "--output-format", "terse"] if False else []
    env = dict(os.environ, CARGO_NET_OFFLINE="true", CARGO_TARGET_DIR=TARGET)
    t0 = time.time()
    try:
        p = subprocess.run(cmd, cwd=SRC, env=env, capture_output=True, text=True, timeout=timeout)
        out, rc = p.stdout + "\n" + p.stderr, p.returncode
    except subprocess.TimeoutExpired as e:
        out, rc = ((e.stdout or b"").decode(errors="replace") if isinstance(e.stdout, bytes) else (e.stdout or "")) + "\nTIMEOUT", 124
    wall = time.time() - t0
    os.makedirs(os.path.join(VERIF, "out", "kx"), exist_ok=True)
    open(os.path.join(VERIF, "out", "kx", "%s.log" % package), "w").write(out)
    r = {"cmd": "CARGO_NET_OFFLINE=true CARGO_TARGET_DIR=%s %s  (cwd: scratch copy of /repo + /verif/kx/harness/*.rs)" % (TARGET, " ".join(cmd)),
         "rc": rc, "wall_s": round(wall, 1), "per": parse_output(out), "out_tail": out[-4000:]}
    _cache[key] = r
    return r


def run_harness(h):
    """h: dict(harness=<short fn name>, package=..., group=[other harness names run in the same invocation],
               bounded=bool, bound=str, functions=[...], trusted=[...], assumptions=[...])"""
    names = h.get("group") or [h["harness"]]
    res = {"harness": h["harness"], "unit": h["harness"], "failed": [], "undecided": [], "bounded": h.get("bounded", False), "bound": h.get("bound"),
           "functions": h.get("functions", []), "trusted": h.get("trusted", []), "assumptions": h.get("assumptions", []), "checks": 0, "checks_ok": 0}
    try:
        pr = run_package(h["package"], names, timeout=h.get("timeout", 3600), features=h.get("features"))
    except FileNotFoundError as e:
        res["undecided"].append({"message": "lost anchor: %s" % e})
        return res
    res["cmd"] = pr["cmd"]
    per = pr["per"].get(h["harness"])
    if per is None:
        msg = "harness did not run (rc=%d): %s" % (pr["rc"], pr["out_tail"][-1200:])
        res["undecided"].append({"message": msg})
        return res
    res["checks"] = per.get("n_checks", 0)
    res["checks_ok"] = per.get("n_checks", 0) - per.get("n_failed", 0)
    res["solver_s"] = per.get("time_s")
    res["summary"] = "%s: %s, %s/%s checks, covers %s/%s, %.1fs" % (h["harness"], "SUCCESSFUL" if per["ok"] else "FAILED", res["checks_ok"], res["checks"], per.get("covers_sat"), per.get("covers"), per.get("time_s") or 0)
    if per.get("covers") and per.get("covers_sat") != per.get("covers") and per["ok"]:
        res["undecided"].append({"message": "vacuity guard: only %s of %s kani::cover! satisfied in %s" % (per.get("covers_sat"), per.get("covers"), h["harness"])})
    if not per["ok"]:
        real = [c for c in per["failed_checks"] if "unwinding assertion" not in c["desc"]]
        if not per["failed_checks"]:
            res["undecided"].append({"message": "kani reported failure without failed checks (timeout/ICE?): %s" % per["raw_tail"][-800:]})
        elif not real:
            res["undecided"].append({"message": "only unwinding assertions failed in %s (bound too small): undecided" % h["harness"]})
        for c in real:
            site = c["file"].replace(SRC + "/", "")
            res["failed"].append({
                "kind": "kani", "obligation": "kani %s: %s" % (h["harness"], c["desc"]), "message": c["desc"],
                "site": {"file": site, "line": c["line"], "where": "repo"}, "rendered": per["raw_tail"][-2500:],
                "clause": None, "harness": h["harness"], "package": h["package"],
            })
    return res


def find_counterexample(h, failed):
    """Run the harness with concrete playback and return the generated unit test text, if any."""
    sync()
    cmd = ["cargo", "kani", "-p", h["package"]] + FLAGS + ["-Z", "concrete-playback", "--concrete-playback=print", "--harness", h["harness"]]
    if h.get("features"):
        cmd += ["--features", h["features"]]
    env = dict(os.environ, CARGO_NET_OFFLINE="true", CARGO_TARGET_DIR=TARGET)
    try:
        p = subprocess.run(cmd, cwd=SRC, env=env, capture_output=True, text=True, timeout=h.get("timeout", 3600))
    except subprocess.TimeoutExpired:
        return None
    out = p.stdout
    m = re.search(r"```\s*\n(.*?#\[test\].*?)```", out, re.S)
    if not m:
        m = re.search(r"(#\[test\]\s*fn kani_concrete_playback.*?\n\}\n)", out, re.S)
    if not m:
        return None
    return {"engine": "kani concrete playback", "harness": h["harness"], "package": h["package"], "test": m.group(1)}


def replay(d):
    """Re-execute the recorded concrete-playback test against the real code: the generated #[test] is appended inside
    the harness module of the scratch copy of /repo and run natively with `cargo kani playback`. Exit 1 if it fails
    (= the violation reproduces), 0 if the test passes (= no longer reproduces)."""
    global _synced
    cex = d["counterexample"]
    _synced = False
    sync()
    hfile = None
    for fn in sorted(os.listdir(HARNESS_DIR)):
        text = open(os.path.join(HARNESS_DIR, fn)).read()
        if fn.endswith(".rs") and re.search(r"fn %s\b" % re.escape(cex["harness"]), text):
            hfile = (fn, text)
    if hfile is None:
        print("harness %s not found" % cex["harness"])
        return 2
    m = re.match(r"//@kx file=(\S+) package=(\S+)(?: features=(\S+))?", hfile[1])
    dst = os.path.join(SRC, m.group(1))
    cur = open(dst).read()
    k = cur.rstrip().rfind("}")
    cur = cur[:k] + "\n" + cex["test"] + "\n}\n"
    open(dst, "w").write(cur)
    name = re.search(r"fn (kani_concrete_playback_\w+)", cex["test"]).group(1)
    cmd = ["cargo", "kani", "playback", "-Z", "concrete-playback", "-p", m.group(2)]
    if m.group(3):
        cmd += ["--features", m.group(3)]
    cmd += ["--", name]
    env = dict(os.environ, CARGO_NET_OFFLINE="true", CARGO_TARGET_DIR=TARGET + "-playback")
    print("$ " + " ".join(cmd))
    p = subprocess.run(cmd, cwd=SRC, env=env, capture_output=True, text=True, timeout=3600)
    out = p.stdout + p.stderr
    tail = "\n".join(l for l in out.splitlines() if re.search(r"^test |panicked|^assertion|test result", l))
    print(tail[-3000:])
    _synced = False
    if re.search(r"test result: FAILED|panicked", out):
        print("REPLAY: violation reproduces on the real code with the recorded inputs")
        return 1
    if re.search(r"test result: ok. 1 passed", out):
        print("REPLAY: recorded inputs no longer violate the obligation")
        return 0
    print(out[-1500:])
    return 2


if __name__ == "__main__":
    pkg = sys.argv[1]
    feats = None
    if ":" in pkg:
        pkg, feats = pkg.split(":")
    hs = sys.argv[2:]
    r = run_package(pkg, hs, features=feats, timeout=int(os.environ.get("KX_TIMEOUT", "900")))
    print(r["cmd"], r["rc"], r["wall_s"])
    for k, v in r["per"].items():
        print(k, "OK" if v["ok"] else "FAILED", v.get("n_failed"), v.get("n_checks"), v.get("covers_sat"), v.get("covers"), v.get("time_s"))
        for c in v["failed_checks"]:
            print("   ", c)
    if not r["per"]:
        print(r["out_tail"])
