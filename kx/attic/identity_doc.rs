//@kx file=crates/radicle/src/identity/doc.rs package=radicle
// Kani harness for C19: Delegates::new (a try_fold closure, outside Verus). BOUNDED: at most 4 input DIDs drawn
// from a 3-key domain; the 255-delegate limit is not reachable at this bound and is NOT checked here.
#[cfg(kani)]
mod kx_identity_doc {
    use super::*;

    fn key(i: u8) -> Did {
        Did::from(crate::crypto::PublicKey::from([i; 32]))
    }

    #[kani::proof]
    #[kani::unwind(34)]
    fn delegates_new_bounded() {
        let n: usize = kani::any();
        kani::assume(n <= 4);
        let mut input: Vec<Did> = Vec::new();
        let mut i = 0;
        while i < n {
            let k: u8 = kani::any();
            kani::assume(k < 3);
            input.push(key(k));
            i += 1;
        }
        let r = Delegates::new(input.clone());
        match r {
            Err(_) => assert!(n == 0, "only the empty list is rejected at this bound"),
            Ok(ds) => {
                assert!(n >= 1 && ds.len() >= 1 && ds.len() <= n);
                // every input is present, every output was an input
                let mut j = 0;
                while j < n {
                    assert!(ds.contains(&input[j]));
                    j += 1;
                }
                // no duplicates: with a 3-key domain at most 3 survive
                assert!(ds.len() <= 3);
                // first occurrence order is preserved
                assert!(ds.first() == &input[0]);
            }
        }
        kani::cover!(n == 4, "four inputs reachable");
    }
}
