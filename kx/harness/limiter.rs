//@kx file=crates/radicle-node/src/service/limiter.rs package=radicle-node
// Kani harnesses for C17 (appended to limiter.rs of the scratch copy as a cfg(kani) module).
// Loop-free code over full-domain symbolic f64/u64 inputs: a passing harness is a complete proof
// of the per-call contract (bit-precise IEEE semantics), not a bounded stand-in.
#[cfg(kani)]
mod kx_limiter {
    use super::*;

    fn any_time() -> LocalTime {
        LocalTime::from_millis(kani::any::<u64>() as u128)
    }

    /// Type invariant of a bucket as built by `TokenBucket::new` and maintained by refill/take:
    /// capacity is a usize converted to f64; 0 <= tokens <= capacity; rate is finite and non-negative.
    fn any_bucket() -> TokenBucket {
        let cap: usize = kani::any();
        let rate: f64 = kani::any();
        let tokens: f64 = kani::any();
        kani::assume(rate.is_finite() && rate >= 0.0);
        kani::assume(tokens >= 0.0 && tokens <= cap as f64);
        TokenBucket { rate, capacity: cap as f64, tokens, refilled_at: any_time() }
    }

    /// Whole seconds of *forward* clock progress; zero if the clock stalled or went backwards
    /// (`LocalTime - LocalTime` saturates at zero).
    fn forward_secs(from: LocalTime, to: LocalTime) -> u64 {
        (to - from).as_secs()
    }

    /// From the statement: a refill adds `rate` tokens per whole second elapsed, capped at capacity.
    fn refill_spec(b: &TokenBucket, now: LocalTime) -> f64 {
        (b.tokens + forward_secs(b.refilled_at, now) as f64 * b.rate).min(b.capacity)
    }

    #[kani::proof]
    fn new_establishes_invariant() {
        let cap: usize = kani::any();
        let rate: f64 = kani::any();
        let now = any_time();
        let b = TokenBucket::new(cap, rate, now);
        assert!(b.tokens == cap as f64 && b.capacity == cap as f64 && b.tokens >= 0.0);
        assert!(b.rate.to_bits() == rate.to_bits() && b.refilled_at == now);
        kani::cover!(cap > 3, "reachable");
    }

    /// refill: never panics for ANY `now` (clock may go backwards), credits exactly the forward whole
    /// seconds, never moves `refilled_at` backwards (so no second is credited twice).
    #[kani::proof]
    fn refill_contract() {
        let mut b = any_bucket();
        let now = any_time();
        let (t0, r0, cap, rate) = (b.tokens, b.refilled_at, b.capacity, b.rate);
        let expect = refill_spec(&b, now);
        b.refill(now);
        assert!(b.tokens.to_bits() == expect.to_bits(), "tokens' == min(cap, tokens + whole forward secs * rate)");
        assert!(b.refilled_at == core::cmp::max(now, r0), "refilled_at' == max(now, refilled_at)");
        assert!(b.tokens >= 0.0 && b.tokens <= cap && b.tokens >= t0, "0 <= tokens <= capacity, refill never removes tokens");
        assert!(b.capacity == cap && b.rate.to_bits() == rate.to_bits(), "frame: rate and capacity unchanged");
        kani::cover!(now < r0, "clock went backwards is reachable");
        kani::cover!(now > r0 && b.tokens > t0, "forward refill is reachable");
    }

    /// take: admits iff at least one whole token is available after the refill, and then removes exactly one.
    #[kani::proof]
    fn take_contract() {
        let mut b = any_bucket();
        let now = any_time();
        let (r0, cap) = (b.refilled_at, b.capacity);
        let avail = refill_spec(&b, now);
        let r = b.take(now);
        assert!(r == (avail >= 1.0), "admitted <=> a whole token is available");
        let expect = if r { avail - 1.0 } else { avail };
        assert!(b.tokens.to_bits() == expect.to_bits(), "exactly one token consumed per admitted request");
        assert!(b.tokens >= 0.0 && b.tokens <= cap, "0 <= tokens <= capacity");
        assert!(b.refilled_at == core::cmp::max(now, r0));
        kani::cover!(r, "admitted reachable");
        kani::cover!(!r, "limited reachable");
    }
}
