//@kx file=crates/radicle-node/src/service/limiter.rs package=radicle-node
// Kani harnesses for C17 (appended to limiter.rs of the scratch copy as a cfg(kani) module).
// Loop-free code over full-domain symbolic f64/u64 inputs: a passing harness is a complete proof of the
// asserted per-call facts (bit-precise IEEE semantics). Only `refill_amount_bounded` restricts the domain
// (it is the BOUNDED stand-in for the exact refill amount: two 53-bit multiplier circuits cannot be proved
// equal by the SAT back end within an hour on the full domain).
#[cfg(kani)]
mod kx_limiter {
    use super::*;

    fn any_time() -> LocalTime {
        LocalTime::from_millis(kani::any::<u64>() as u128)
    }

    /// Type invariant of a bucket as built by `TokenBucket::new` and maintained by refill/take:
    /// capacity is a usize converted to f64; 0 <= tokens <= capacity; rate is finite and non-negative.
    fn any_bucket() -> TokenBucket {
        let cap: usize = kani::any();
        let rate: f64 = kani::any();
        let tokens: f64 = kani::any();
        kani::assume(rate.is_finite() && rate >= 0.0);
        kani::assume(tokens >= 0.0 && tokens <= cap as f64);
        TokenBucket { rate, capacity: cap as f64, tokens, refilled_at: any_time() }
    }

    /// Whole seconds of *forward* clock progress; zero if the clock stalled or went backwards
    /// (`LocalTime - LocalTime` saturates at zero).
    fn forward_secs(from: LocalTime, to: LocalTime) -> u64 {
        (to - from).as_secs()
    }

    #[kani::proof]
    fn new_establishes_invariant() {
        let cap: usize = kani::any();
        let rate: f64 = kani::any();
        let now = any_time();
        let b = TokenBucket::new(cap, rate, now);
        assert!(b.tokens == cap as f64 && b.capacity == cap as f64 && b.tokens >= 0.0);
        assert!(b.rate.to_bits() == rate.to_bits() && b.refilled_at == now);
        kani::cover!(cap > 3, "reachable");
    }

    /// refill, for ANY `now` (the clock may stall or go backwards): never panics, never moves `refilled_at`
    /// backwards (so no second is ever credited twice), never removes tokens, stays within [0, capacity],
    /// credits nothing unless a whole second of forward time has passed, leaves rate and capacity alone.
    #[kani::proof]
    fn refill_contract() {
        let mut b = any_bucket();
        let now = any_time();
        let (t0, r0, cap, rate) = (b.tokens, b.refilled_at, b.capacity, b.rate);
        let secs = forward_secs(r0, now);
        b.refill(now);
        assert!(b.refilled_at == core::cmp::max(now, r0), "refilled_at' == max(now, refilled_at)");
        assert!(b.tokens >= 0.0 && b.tokens <= cap, "0 <= tokens <= capacity");
        assert!(b.tokens >= t0, "refill never removes tokens");
        assert!(secs != 0 || b.tokens == t0, "no refill without a whole second of forward clock progress");
        assert!(rate != 0.0 || b.tokens == t0, "no refill at rate zero");
        assert!(b.capacity == cap && b.rate.to_bits() == rate.to_bits(), "frame: rate and capacity unchanged");
        kani::cover!(now < r0, "clock went backwards is reachable");
        kani::cover!(now > r0 && b.tokens > t0, "forward refill is reachable");
    }

    /// BOUNDED (elapsed < 256 whole seconds, rate with at most 10 significant mantissa bits):
    /// the refill amount is exactly `rate` tokens per whole second elapsed, capped at capacity.
    #[kani::proof]
    fn refill_amount_bounded() {
        let mut b = any_bucket();
        let now = any_time();
        kani::assume(now >= b.refilled_at && forward_secs(b.refilled_at, now) < 256);
        b.rate = f64::from_bits(b.rate.to_bits() & !((1u64 << 42) - 1));
        let secs = forward_secs(b.refilled_at, now);
        let expect = (b.tokens + secs as f64 * b.rate).min(b.capacity);
        b.refill(now);
        assert!(b.tokens == expect, "tokens' == min(capacity, tokens + whole_secs * rate)");
        kani::cover!(secs == 200 && b.rate == 0.5, "reachable");
    }

    /// take, for ANY `now`: a request is admitted only if a whole token is available and admission removes
    /// one token; a refused request leaves less than one token; the bucket stays within [0, capacity].
    #[kani::proof]
    fn take_contract() {
        let mut b = any_bucket();
        let now = any_time();
        let (t0, r0, cap) = (b.tokens, b.refilled_at, b.capacity);
        let secs = forward_secs(r0, now);
        let r = b.take(now);
        assert!(b.tokens >= 0.0 && b.tokens <= cap, "0 <= tokens <= capacity");
        assert!(r || b.tokens < 1.0, "refused => fewer than one token available");
        assert!(!r || b.tokens + 1.0 <= cap, "admitted => one token was removed from at most capacity");
        assert!(!r || b.tokens >= t0 - 1.0, "admitted => exactly one token consumed (lower bound)");
        assert!(r || b.tokens >= t0, "refused => nothing consumed");
        assert!(secs != 0 || (r == (t0 >= 1.0) && b.tokens == if r { t0 - 1.0 } else { t0 }),
            "without refill: admitted <=> tokens >= 1, and exactly one token is removed");
        assert!(b.refilled_at == core::cmp::max(now, r0));
        kani::cover!(r, "admitted reachable");
        kani::cover!(!r, "limited reachable");
    }
}
