//@kx file=crates/radicle-crypto/src/ssh.rs package=radicle-crypto features=ssh
// Kani harnesses for C27 (second sentence): keys and signatures written in the SSH wire encoding read back
// unchanged. All 2^256 keys / 2^512 signatures are symbolic; the only loops are byte copies of fixed-size
// buffers, unwound completely (unwinding assertions on) => complete proofs, not bounded stand-ins.
#[cfg(kani)]
mod kx_crypto_ssh {
    use super::*;
    use radicle_ssh::encoding::Buffer;

    #[kani::proof]
    #[kani::unwind(90)]
    #[kani::solver(kissat)]
    fn signature_roundtrip() {
        let bytes: [u8; 64] = kani::any();
        let sig = crypto::Signature::from(bytes);
        let mut buf = Buffer::default();
        sig.write(&mut buf);
        let mut cursor = buf.reader(0);
        let back = crypto::Signature::read(&mut cursor);
        assert!(matches!(back, Ok(ref s) if ***s == bytes), "Signature: read(write(s)) == s");
        assert!(cursor.position == buf.len(), "the whole encoding is consumed");
        kani::cover!(bytes[0] == 7 && bytes[63] == 9, "reachable");
    }

    #[kani::proof]
    #[kani::unwind(60)]
    fn public_key_roundtrip() {
        let bytes: [u8; 32] = kani::any();
        let pk = PublicKey::from(bytes);
        let mut buf = Buffer::default();
        pk.write(&mut buf);
        // A key is written as one SSH string (the key blob); the reader of a blob is what `read` consumes
        // (this is how AgentClient::request_identities uses it).
        let mut outer = buf.reader(0);
        let blob = outer.read_string();
        assert!(blob.is_ok() && outer.position == buf.len(), "exactly one string is written");
        let blob = blob.unwrap();
        let mut cursor = blob.reader(0);
        let back = PublicKey::read(&mut cursor);
        assert!(matches!(back, Ok(ref k) if ***k == bytes), "PublicKey: read(blob(write(k))) == k");
        assert!(cursor.position == blob.len(), "the whole blob is consumed");
        kani::cover!(bytes[0] == 7 && bytes[31] == 9, "reachable");
    }
}
