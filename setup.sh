#!/bin/bash
# Offline setup: byte-compile the framework, check the tools are present, warm the Kani dependency cache
# (cold build of radicle-node's dependencies under kani-compiler; everything comes from the local cargo registry).
set -e
cd "$(dirname "$0")"
python3 -m py_compile vx/rlex.py vx/gen.py vx/run.py vx/lint.py vx/props.py kx/kxrun.py check
command -v verus >/dev/null
command -v cargo-kani >/dev/null
mkdir -p out evidence .cache
# warm-up: one trivial harness compiles all dependencies once (same -Z flag set as the checks)
python3 kx/kxrun.py radicle-node new_establishes_invariant > out/setup_kani.log 2>&1 || { tail -30 out/setup_kani.log; echo "kani warm-up failed (checks using kx will report undecided)"; }
echo setup ok
