#!/bin/bash
# Offline setup: byte-compile the framework, check the tools are present.
set -e
cd "$(dirname "$0")"
python3 -m py_compile vx/rlex.py vx/gen.py vx/run.py vx/props.py check
command -v verus >/dev/null
mkdir -p out evidence
echo setup ok
